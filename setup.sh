#!/bin/sh
# Build the analysis interpreter: an overlay venv on /venv (which has quara's own deps)
# plus crosshair-tool / z3-solver / cvc5 from the offline wheelhouse.  Idempotent.
set -e
cd "$(dirname "$0")"
V=.venv
if [ ! -x $V/bin/python ] || ! $V/bin/python -c "import z3, crosshair, cvc5, numpy, scipy" 2>/dev/null; then
  rm -rf $V
  /venv/bin/python -m venv $V
  SP=$($V/bin/python -c "import sysconfig; print(sysconfig.get_paths()['purelib'])")
  echo "import site; site.addsitedir('/venv/lib/python3.12/site-packages')" > "$SP/_overlay.pth"
  PIP_NO_INDEX=1 $V/bin/pip install -q --no-index --find-links /opt/veriftools/wheels crosshair-tool z3-solver cvc5
fi
$V/bin/python -c "import z3, crosshair, cvc5, numpy, scipy; print('symq env ok: z3', z3.get_version_string(), 'numpy', numpy.__version__)"
mkdir -p evidence replays
