#!/bin/sh
# usage: verify_mutant.sh <dir with patch.diff demo.py> <tag>
# Confirms in a scratch worktree of /repo's HEAD: demo passes unpatched, patch applies, demo fails patched,
# pinned suite still has 113 passes.  Prints one summary line; removes the worktree.
D=$1; TAG=$2; WT=/tmp/mv_$TAG
git -C /repo worktree remove --force $WT >/dev/null 2>&1
git -C /repo worktree add -q --detach $WT HEAD || exit 3
cd $WT
/venv/bin/python $D/demo.py $WT >/tmp/mv_$TAG.clean.log 2>&1; RC_CLEAN=$?
if git apply --check $D/patch.diff 2>/dev/null; then git apply $D/patch.diff; AP=ok; else AP=FAILED; fi
/venv/bin/python $D/demo.py $WT >/tmp/mv_$TAG.mut.log 2>&1; RC_MUT=$?
PASSED=$(/venv/bin/python -m pytest -q -p no:cacheprovider --timeout=900 --continue-on-collection-errors 2>&1 | tail -1)
cd /; git -C /repo worktree remove --force $WT
echo "$TAG apply=$AP demo_clean_rc=$RC_CLEAN demo_mut_rc=$RC_MUT pytest: $PASSED"
