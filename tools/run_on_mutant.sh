#!/bin/sh
# usage: run_on_mutant.sh <patch.diff> <command...>   -- applies the patch to /repo, runs the command, reverts.
P=$1; shift
git -C /repo diff --quiet || { echo "/repo has local changes"; exit 3; }
git -C /repo apply $P || { echo "patch does not apply"; exit 3; }
"$@"; RC=$?
git -C /repo checkout -- .
exit $RC
