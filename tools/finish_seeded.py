#!/usr/bin/env python3
"""copies the measured detection result of seeded/MATRIX.json into every seeded/<id>/meta.json and prints the summary table"""
import json, os
V = os.path.dirname(os.path.dirname(os.path.abspath(__file__)))
m = json.load(open(os.path.join(V, "seeded", "MATRIX.json")))
own = other = inc = miss = 0
rows = []
for mid in sorted(m, key=lambda k: (k[:3], int(k.split("_m")[1]))):
    row = m[mid]
    mp = os.path.join(V, "seeded", mid, "meta.json")
    if not os.path.exists(mp) or not isinstance(row, dict):
        continue
    meta = json.load(open(mp))
    det = [c for c, v in row.items() if isinstance(v, dict) and v.get("exit") == 1]
    incl = [c for c, v in row.items() if isinstance(v, dict) and v.get("exit") == 2]
    o = mid[:3].lower()
    if o in det:
        verdict = "detected by the property's own check"; own += 1
    elif det:
        verdict = "detected by the check of the property that owns the changed code: " + ", ".join(det); other += 1
    elif incl:
        verdict = "inconclusive only (exit 2: the check refuses to pass but prints no VIOLATION line): " + ", ".join(incl); inc += 1
    else:
        verdict = "not detected"; miss += 1
    meta["detection"] = {"quick_tier_result": verdict, "runs": {c: {"exit": v.get("exit"), "seconds": v.get("seconds"), "obligations": v.get("obligations", [])[:4]} for c, v in row.items() if isinstance(v, dict)},
                         "how": "tools/seed_matrix.py (patch applied to a scratch worktree of /repo HEAD, checks pointed at it with QUARA_REPO)"}
    json.dump(meta, open(mp, "w"), indent=1)
    rows.append((mid, verdict))
print(f"total={len(rows)} own={own} other={other} inconclusive_only={inc} not_detected={miss}")
for mid, v in rows:
    if not v.startswith("detected by the property's own"):
        print(mid, "|", v)
