#!/usr/bin/env python3
"""regenerates /verif/MANIFEST.json from the table below (edit here, not the JSON)"""
import json, os, subprocess
V = os.path.dirname(os.path.dirname(os.path.abspath(__file__)))
PY = "/verif/.venv/bin/python"
ALL = ["C%02d" % i for i in range(1, 21)]

COMMON_NOTE = ("Trusted base: z3 4.x/5.x verdicts; the symq layer (operator overloading over numpy object arrays, "
               "validated per obligation by comparing the symbolic result with a concrete run at random points and by replaying "
               "every model on plain numpy); numpy's python-level array functions. Semantics: exact real arithmetic with double "
               "constants at their rational value; IEEE rounding, inputs outside the stated boxes/configurations and anything behind "
               "a listed contract stub are outside the claim (see DESIGN.md 1.3, 1.6).")

CHECKS = {
    "C02": dict(
        technique="symbolic execution of the real conversion functions on symbolic numpy arrays + z3 (QF_LRA/NRA) verdict per path",
        category="other",
        text="For each configuration (1 qubit, qutrit; thorough: 2 qubits, qubit x qutrit) every conversion between vec / density / POVM "
             "matrices / HS / Choi / process matrix / Kraus / computational-basis forms is executed on fully symbolic parameters and z3 "
             "decides, over the whole box |x|<=1e3, agreement with the defining formula, agreement of the alternative implementations and "
             "inverse-after-forward = identity (tolerance 1e-8). Every composite system under test is created after a sibling system of the same shape with another basis has been built and exercised in the same process (no state shared between systems). Bounded (configurations, box), not a proof.",
        design_ref="DESIGN.md 3/C02"),
    "C01": dict(
        technique="symbolic execution of the real verdict methods with symbolic parameters AND symbolic tolerance; eigen-solvers replaced by a spectral parametrisation; z3 (QF_LRA/NRA) verdict per path",
        category="other",
        text="Equality verdicts (trace / identity-sum / TP / sum-TP, both is_tp branches incl. unnormalised and non-identity-first bases): z3 decides verdict <=> definition for all "
             "parameters in |x|<=10 and all atol in [1e-13,1e-2] (thin 1e-14 band around the threshold excluded). Inequality verdicts: matrices are built from symbolic eigenvalues and "
             "exact unitary frames, the real Hermiticity test / eigenvalue filtering / >=0 test run on them, claim verdict <=> min eigenvalue >= -atol; is_physical with two independent "
             "tolerances, constructors (raise <=> not physical), monotonicity in atol, origin/zero objects. Bounded by configurations, frame library and boxes.",
        design_ref="DESIGN.md 3/C01"),
    "C03": dict(
        technique="symbolic execution (symbolic reals + symbolic integer indices) of the real var/object conversions and index maps + z3 (QF_LRA/LIA) verdict per path",
        category="other",
        text="Round trips var<->object<->stacked vector for all four types, both flags, outcome counts 2..3 (thorough ..5), 1 qubit/qutrit (thorough 2 qubits) are decided "
             "for ALL parameter values in the box; index maps are decided for ALL indices as symbolic integers (inverse, range, 'points at the entry holding "
             "the variable' via ITE-select, calc_gradient one-hot); SetQOperations total/local index maps and set_qoperations_from_var_total on mixed sets, also after an operation was added through a property setter; generate_from_var with every combination of (object flag) x (on_para_eq_constraint argument None/True/False) and the other keyword arguments. Bounded by the configuration list.",
        design_ref="DESIGN.md 3/C03"),
    "C04": dict(
        technique="symbolic execution of the real projection methods (spectral parametrisation for eigh, uninterpreted eigh for obj/var congruence) + z3 (QF_LRA/NRA) verdict per path",
        category="other",
        text="Equality projections (affine code): for all x in |x|<=1e3 the result satisfies the mathematical constraint exactly and x-P(x) is orthogonal to the constraint's null space "
             "(=> nearest point), idempotent, fixes feasible points, operand and argument arrays untouched, object-level == variable-level under both flags, closures == methods; measurement processes also with multi-axis outcome shapes (1,2), (2,2) (thorough (2,1), (3,2)). "
             "Inequality projections: inputs V diag(w) V† with symbolic spectrum: output == vec(V max(w,0) V†), idempotent, fixes PSD inputs, variable-level agreement; variational "
             "inequality against a superset of the PSD cone at 1 qubit (polynomial inequality, NRA). Bounded by configurations / frame library.",
        design_ref="DESIGN.md 3/C04"),
    "C05": dict(
        technique="translation validation: symbolic execution of the real calc_proj_physical(_with_var) loops with the two projections as uninterpreted functions, z3 (QF_UFLRA + polynomial stopping test) equality with the textbook Dykstra recurrence per path",
        category="translation_validation",
        text="For max_iteration K (3 quick, 5 thorough; the API's own bound, so the loop is explored completely) and every path of the stopping test, the returned point, every "
             "history entry (p,q,x,y,error_value) and the stopping decision equal the reference Dykstra recurrence over the same uninterpreted P_eq/P_ineq, for both projection "
             "orders, both flags, object- and variable-level and all four types; object-level == variable-level == closures; an already-physical input (P_eq,P_ineq fix it) is returned "
             "unchanged; the number of sweeps is taken from the reference stopping rule, not from the routine's own history; variable-level calls whose flag differs from the object's flag.  Nearest-point-ness of the limit is the Boyle-Dykstra theorem given C04 and is NOT checked; convergence/accuracy are outside.",
        design_ref="DESIGN.md 3/C05"),
    "C06": dict(
        technique="symbolic execution of the real compose_qoperations on symbolic states/gates against Kraus-operator and Born-rule reference formulas; z3 (LRA, polynomial identities under monomial relaxation, exact NRA for 1-parameter chains)",
        category="other",
        text="Pairwise semantics (gate-state, gate-gate, POVM-state Born rule, Heisenberg POVM, measurement process on a state incl. post-measurement states and zero-probability "
             "outcomes, process-process, induced POVM, generate_mprocess modes 0/1/2 incl. a repeated eigenvalue, zero-probability conditional outcomes, a POVM after a zero-weight ensemble member, outcome shapes kept through gate composition) for a symbolic state/gate against a library of non-commuting, non-self-adjoint operations with "
             "different outcome counts; all type-valid bracketings of chains of length 3-4 (thorough: 5) give the reference statistics in time-ordered row-major layout. Bounded: 1 qubit "
             "(qutrit / 2 qubits for the linear pairs), probabilities >= 1e-3, library listed in checks/objlib.py.",
        design_ref="DESIGN.md 3/C06"),
    "C07": dict(
        technique="symbolic execution of the real tensor_product / embedding code on symbolic factors + z3 (LRA; polynomial identities under monomial relaxation) against Kronecker-product references",
        category="other",
        text="For 2-3 (thorough 4) subsystems of dimension 2/3 in every permutation of subsystem names, with one factor symbolic at a time (all factors symbolic for pairs): the result's "
             "operator equals the Kronecker product of the factors in ascending name order (states, POVMs with pairwise different outcome counts and multi-index layout per nums_local_outcomes, "
             "gates via HS, measurement processes via shape), independent of argument order/grouping; qutrit->2-qubit embedding of states, POVMs (symbolic) and a one-parameter family of "
             "non-unitary gates (spectral parametrisation) preserves trace preservation and statistics of embedded inputs; a one-parameter measurement process whose outcomes have different Kraus counts likewise.",
        design_ref="DESIGN.md 3/C07"),
    "C08": dict(
        technique="symbolic execution of the real tomography classes (calc_matA/vecB, generate_prob_dists_sequence -> Experiment -> compose_qoperations) with the unknown object symbolic + z3 (LRA/NRA) against Born-rule references",
        category="other",
        text="For QST/POVMT/QPT/QMPT, both parametrisations, 1 qubit (qutrit thorough; qutrit QMPT in quick), tester sets with mixed outcome counts and schedule lists 'all' / permuted / repeated / subsets: "
             "A x + b equals the Born-rule probabilities in (schedule, outcome) order for ALL variable vectors x; the executed circuits equal the model for all objects on the equality constraint with "
             "probabilities >= 1e-3; one column per variable; full column rank decided over all unit directions for the complete tester sets. Tester sets include POVMs with elements of unequal trace and outcome counts != dimension, and 2-qubit QST/POVMT models.",
        design_ref="DESIGN.md 3/C08"),
    "C09": dict(
        technique="symbolic execution of the real LinearEstimator with symbolic true object / symbolic data (concrete tester sets) + z3 (QF_LRA)",
        category="other",
        text="For the four tomography types, both parametrisations, complete and over-complete 1-qubit tester sets (qutrit thorough): exact distributions of a symbolic object give back that object for ALL "
             "objects and independently of the (symbolic integer) sample counts; for ALL data vectors in [-2,2]^n (incl. non-normalised) the estimate satisfies the normal equations A^T(Av+b-f)=0; "
             "sequence estimation equals single estimation element-wise; the same estimator instance used on a sibling tomography first (no state carried over); testers with elements of unequal trace / outcome count != dimension. inv(A^T A) is concrete LAPACK on the concrete tester model.",
        design_ref="DESIGN.md 3/C09"),
    "C10": dict(
        technique="symbolic execution of the real estimators / algorithm configuration with uninterpreted constraint projections, loss and gradient + z3 (QF_UFLRA) congruence; end-to-end run with real projections under the spectral parametrisation",
        category="other",
        text="(1) ProjectedLinearEstimator on symbolic data returns exactly to_var(physical projection, in the requested order, of the linear estimate) (projections uninterpreted, Dykstra "
             "unrolled through its own max_iteration); (2) set_constraint_from_standard_qt_and_option picks, for every flag combination and also on a RE-USED algorithm object, the "
             "documented projection (applied to a symbolic variable vector); (3) all three algorithms start from the origin object's variables, which are physical, and leave their option object unchanged; (3b) LossMinimizationEstimator.calc_estimate_sequence configures the loss for EVERY data set (probe algorithm returning the loss gradient it sees); (4) exact data of a physical "
             "1-qubit state / 2-3-outcome POVM (symbolic spectrum incl. boundary) -> the projected linear estimator returns that object, with the REAL projections. That every iterate is a "
             "projected point / convex combination is decided in C11's step obligations. Convergence of the physical projection and accuracy to thresholds are outside.",
        design_ref="DESIGN.md 3/C10"),
    "C11": dict(
        technique="symbolic execution of one to two iterations of the real optimisers from an arbitrary start with loss value, gradient and projection as uninterpreted functions + z3 (UFLRA; exact NRA on the UF-free abstraction for the descent lemma)",
        category="other",
        text="Backtracking: every new iterate is x + alpha (P(x - g/mu) - x) with alpha = 2^-j (convex combination of feasible points), the Armijo exit condition holds, and together with the "
             "nearest-point axiom instance of P it implies f(x_next) <= f(x) (loss never increases); the four stopping modes compute the documented quantities over the history window and the loop "
             "stops exactly when the windowed sum <= eps; histories are consistent. Momentum and FISTA update rules equal their reference recurrences; the option object is not written to. One inductive step from an arbitrary state covers "
             "runs of any length. NOT claimed: that the limit is the constrained optimum, agreement with the CVXPY/SCS estimator (external C solver), alpha halving deeper than the unrolled depth.",
        design_ref="DESIGN.md 3/C11"),
    "C12": dict(
        technique="symbolic execution of the real loss classes with symbolic variables, increments, data and weights + z3 (polynomial identities under monomial relaxation; ln uninterpreted; quotient lemmas proved by exact NRA)",
        category="other",
        text="Squared-error losses (generic and fast): exact Taylor identity f(x+h)-f(x)-<grad,h>-1/2 h^T H h = 0 in symbolic (x,h,q,W) and value == weighted squared distance on the model probabilities; "
             "fast == generic (value, gradient) under identity / custom / inverse-covariance weights; every accepted weighting mode equals the reference with the documented weights (2-3 outcomes, thorough 4-5). "
             "Testers with elements of unequal trace, unequal shot counts per schedule, and the constructor + direct-setter route are included. Relative entropy (generic and fast), away from the clipping thresholds: value, gradient and Hessian equal the defining formulas with ln uninterpreted. SimpleQuadraticLossFunction Taylor identity.",
        design_ref="DESIGN.md 3/C12"),
    "C13": dict(
        technique="symbolic execution of real operation histories on a shared pool of symbolic objects + comparison with a fresh pool (syntactic term identity first, z3 otherwise); bounded history length",
        category="model_checking",
        text="Every ordered pair (thorough: triples on a reduced set) of 26 public operations (conversions, verdicts, projections, composition, tensor, copies, probability "
             "calculation, tomography construction, loss evaluation ...) on one shared composite system and object pool with symbolic parameters: after every step every pool object's "
             "parameters are unchanged, and afterwards every probe returns what it returns on a freshly built pool. Copies are independent of in-place overwrites of the original; Povm stores "
             "private read-only arrays; basis tables are read-only; accessors return fresh results after handed-out arrays were overwritten or the parameters updated in place; building projection closures configures nothing;  symbolic empirical distributions (entries below the 1e-8 replacement threshold reachable) handed to the data-taking operations (replace_prob_dist, covariance, Fisher matrix, linear estimate, losses incl. inverse-covariance modes) are unchanged afterwards; a loss object re-configured (dataset / weighting mode sequences of length <=3) equals a fresh loss for every x. "
             "Bounded by history length 2 (3) and the operation list; caches keyed by anything else are outside.",
        design_ref="DESIGN.md 3/C13"),
    "C14": dict(
        technique="symbolic execution of the real sampling code with symbolic probabilities, symbolic PRNG draws (contract stub: draw k of stream s is a fresh symbol in [0,1)) and symbolic integer data + z3 (LRA/LIA)",
        category="other",
        text="_random_number_to_data / generate_data_from_prob_dist: for every probability vector the validator accepts (exact zeros, sum deficit up to 9e-14) and every draw in [0,1) the "
             "outcome is in range, has non-zero probability and is the inverse-CDF image (n<=4 outcomes, N<=3 draws; thorough n<=6, N<=4). calc_empi_dist_sequence on symbolic integer data "
             "(L<=4, thorough 5; K<=2 prefixes): counts/num_sum, non-negative, sums to one, raises only under the documented conditions. Multinomial route with rvs replaced by its contract; every returned (n, distribution) of Experiment / tomography entry points carries the requested sample size for its (step, schedule) position (unequal sizes). "
             "All three sampling entry points of all four tomography classes draw with the requested size from the distribution of their schedule (recording multinomial stub). An Experiment used again after one of its objects was replaced (item assignment on the accessor's list, or the setter) draws from Tr(E_x rho) of the CURRENT objects; changing a copy does not affect the original. Seed data-flow: with an integer seed the output depends on that seed's stream only, equal seeds consume equal draws, None uses the global stream, a shared generator advances; CrossHair on the real to_stream with a SYMBOLIC integer seed in [0,2^32): always a new generator over MT19937(seed). "
             "NOT claimed: anything about MT19937/PCG bit streams or scipy's multinomial sampler (C code).",
        design_ref="DESIGN.md 3/C14"),
    "C18": dict(
        technique="symbolic execution of the real effective-Lindbladian code on symbolic H / J / K / jump matrices + z3 (polynomial identities, spectral parametrisation of K for verdicts and projection)",
        category="other",
        text="generate_effective_lindbladian_from_{h,hk,hjk,k} and from jump operators: action on every basis element equals the GKSL right-hand side (1 qubit; thorough qutrit for the builders / 2 qubits for fast==slow and the Hamiltonian part); calc_h_mat / calc_j_mat / calc_k_mat extraction round-trips; fast (sparse-table) == slow; is_tp <=> trace functional annihilates the generator; is_cp <=> K >= -atol "
             "with K = V diag(w) V^dagger symbolic w; inequality projection replaces K by its positive part and keeps H, J (diagonal and complex frame; thorough all frames); variables <-> generator with the implied first row ZERO. "
             "NOT claimed: expm-based to_gate / from_gate (C kernel) beyond concrete translator validation.",
        design_ref="DESIGN.md 3/C18"),
    "C19": dict(
        technique="symbolic execution of the real analytical-error code with a symbolic true object + exact expectation by complete enumeration of multinomial count vectors (pmf polynomials) with the REAL LinearEstimator run on each data set + z3 (polynomial / rational identities; near-duplicate quotient lemmas proved by exact NRA)",
        category="other",
        text="1-qubit state tomography (3 projective Pauli POVMs) and POVM tomography (4 Pauli eigenstates, m=2; m=3 in the constrained qoperation mode; thorough m=3 everywhere), both "
             "parametrisations, true object symbolic with all probabilities >= 1e-3: calc_covariance_mat_single/total == (diag p - p p^T)/N == enumerated multinomial covariance (N=2,3; thorough up to 4, unequal N per schedule); "
             "calc_mse_empi_dists_analytical == enumerated sum E|f-p|^2; calc_mse_linear_analytical (mode var and qoperation, incl. the implied POVM element) == enumerated E|estimate - truth|^2 "
             "with the real linear estimator (N=1,2; thorough 3); Fisher matrix == sum (grad p)(grad p)^T/p and weighted total; Cramer-Rao bound at a concrete interior point with SYMBOLIC N and unequal list_N == "
             "Tr[(sum N_j F_j)^-1] (+ implied-element term), independent of N. matrix_util helpers (calc_se, calc_direct_sum, calc_conjugate, calc_covariance_mat, calc_left_inv), the default Fisher regularisation on a boundary distribution, data_analysis.calc_mse_qoperations and covariance helpers; over-complete tester sets with uneven N. "
             "NOT claimed: larger N / systems, asymptotic statements, the simulation-side Monte-Carlo comparisons.",
        design_ref="DESIGN.md 3/C19"),
    "C15": dict(
        technique="symbolic execution of the real serial simulation entry points with every PRNG draw a fresh symbol of its stream (contract stubs for numpy.random / multinomial.rvs) + data-flow claims decided per path; symbolic depolarising rate and base object with a spectral parametrisation of the channel's Choi matrix",
        category="other",
        text="PARTIAL coverage of C15, the part a solver can reach. Decided: (1) generate_empi_dists_and_calc_estimate / the repetition loop behind execute_simulation for 1-qubit QST/POVMT "
             "(thorough also QPT/QMPT), n_rep 3 (thorough 2 and 4), seed given as integer / generator / None: the repetitions consume pairwise disjoint draws (are not copies), all draws "
             "come from the designated stream, an explicit seed leaves the global stream untouched, the same integer seed reproduces the same draws and the same estimates, and re-estimation "
             "from the stored empirical distributions reproduces the stored estimates (linear estimator); execute_simulation stores a setting equal to the given one field by field (all fields "
             "given different values) and the tomography rebuilt from the stored setting has the same tolerances, coefficient matrix and constant vector and reproduces the stored estimates. (2) DepolarizedQOperationGenerationSetting for all four object types with SYMBOLIC "
             "rate p in [0,1] and symbolic base object (1 qubit, two-qubit state and POVM; thorough also qutrit and a two-qubit gate): result == (1-p) ideal + p maximally-mixed part, and the depolarising channel passes the library's physicality "
             "test for every p. NOT decided (outside): invariance under joblib worker counts and process scheduling, SeedSequence.spawn, pickled results and re-estimation from files, "
             "random effective-Lindbladian generation, loss-minimisation estimators inside simulations, the built-in physicality-violation check.",
        design_ref="DESIGN.md 3/C15, 7.7"),
    "C16": dict(
        technique="symbolic execution of the real index / distribution code (symbolic probabilities, symbolic integer indices) + z3 (LRA/NRA with division lemmas); CrossHair on index_util with symbolic shapes",
        category="other",
        text="Index maps: all serial/multi indices symbolic for every shape with <=3 variables of 1..4 values (thorough 4 of 1..5) and, with CrossHair, symbolic shape entries; "
             "MultinomialDistribution constructor / marginalize / conditionalize / __getitem__ / validate_prob_dist on symbolic probability tensors (incl. sub-threshold entries) with "
             "joint = marginal x conditional decided as polynomial identities, conditioning variables also listed in non-ascending order. Bounded by the shapes listed in the evidence; CrossHair with four symbolic shape entries only for values 1..3.",
        design_ref="DESIGN.md 3/C16"),
    "C20": dict(
        technique="path exploration of the real validation code with symbolic integer indices (unbounded) and forked kind selectors + z3 (QF_LIA) verdict 'accepted <=> 15-line spec' per path",
        category="other",
        text="Experiment constructor, the five setters, malformed items, the four tomography classes' custom schedules (length <=4 quick, <=5 thorough) and 'all' expansion, two-call histories (list setter then schedules setter), execution of schedules with several intermediate operations in order, Experiment.copy() (accepted, same objects in all four lists, own list objects): for every "
             "kind sequence and list-size configuration the solver decides accepted <=> well-formed for ALL integer index values, and that rejection raises only the two schedule errors; "
             "accepted schedules are executed on a symbolic state. Bounded by schedule length and list sizes 0..2.",
        design_ref="DESIGN.md 3/C20"),
}

NOT_APPLICABLE = {
    "C17": "finite catalogues of constants selected by name: no input for a solver to range over; deciding each entry is concrete "
           "enumeration (excluded as deciding step for this technique); the only quantified sub-claim sends a symbolic string through "
           "eval()/str.split and 39k-name lists, out of reach for CrossHair and z3 strings; expm-based agreement is behind a C kernel",
}
PENDING = "check under construction in this session (see DESIGN.md section 3); not claimed yet"


def main():
    checks = []
    for pid in ALL:
        c = CHECKS.get(pid)
        if not c:
            continue
        low = pid.lower()
        checks.append({
            "property_id": pid,
            "quick_cmd": f"{PY} checks/{low}.py --tier quick",
            "thorough_cmd": f"{PY} checks/{low}.py --tier thorough",
            "evidence_file": f"/verif/evidence/{pid}.json",
            "replay_cmd_template": f"{PY} checks/{low}.py --replay {{path}}",
            "engine": "symq",
            "level_claimed": {"category": c["category"], "text": c["text"], "design_ref": c["design_ref"]},
            "level_note": c.get("note", "") + COMMON_NOTE,
            "technique": c["technique"],
        })
    na = []
    for pid in ALL:
        if pid in CHECKS:
            continue
        na.append({"property_id": pid, "reason": NOT_APPLICABLE.get(pid, PENDING)})
    m = {
        "version": 1,
        "setup_cmd": "sh /verif/setup.sh",
        "hooks": {"guard": "QUARA_VERIF",
                  "enable": "no source hooks are needed: checks import /repo's working tree directly (sys.path) inside the overlay interpreter /verif/.venv; QUARA_VERIF=1 is exported by the harness but read by nothing in /repo",
                  "baseline_off_cmd": "cd /repo && /venv/bin/python -m pytest -ra -q -p no:cacheprovider --timeout=900 --continue-on-collection-errors",
                  "source_commits": [], "add_only": True},
        "engines": [
            {"name": "symq", "path": "/verif/symq", "serves_properties": sorted(CHECKS),
             "kind_free_text": "symbolic execution of the real quara functions on numpy object arrays of polynomial scalars (operator overloading, numpy-namespace proxy), path exploration with z3 feasibility, z3 verdict on bounds ∧ assumptions ∧ path ∧ definitions ∧ ¬claim, concrete replay of models"},
            {"name": "crosshair", "path": "/verif/.venv/bin/crosshair", "serves_properties": [p for p in ("C03", "C16") if p in CHECKS],
             "kind_free_text": "CrossHair 0.0.110 (symbolic execution of pure-integer Python with z3) on generated PEP-316 harnesses for index maps"},
        ],
        "checks": checks,
        "not_applicable": na,
        "notes": "Solver-based checking of the real code. Exit 0 = held on everything explored, 1 = replayed violation (VIOLATION line), "
                 "2 = inconclusive / harness error (never reported as success). known_findings.json lists genuine defects (open -> KNOWN-FINDING line, fixed -> 'fix:' commit in /repo). Mutation evidence: seeded/ (220 breaking changes written by sub-agents from the property text alone, MATRIX.json: which check reports which) and benign/ (57 behaviour-preserving refactorings, MATRIX.json: every quick check stays at exit 0); DESIGN.md 7.5, 7.9-7.11.",
    }
    json.dump(m, open(os.path.join(V, "MANIFEST.json"), "w"), indent=1)
    print("checks:", [c["property_id"] for c in checks], "n/a:", [n["property_id"] for n in na])


if __name__ == "__main__":
    main()
