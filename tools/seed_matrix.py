#!/usr/bin/env python3
"""runs the designated checks (quick tier) on every seeded change and writes seeded/MATRIX.json.
usage: seed_matrix.py [ids...]
Default: a scratch worktree of /repo's HEAD (/tmp/seedwt, removed at the end) receives each patch and the checks are pointed at it with
QUARA_REPO, so /repo itself stays usable meanwhile.  SEED_IN_PLACE=1: apply to /repo itself and revert with git checkout -- . (what
tools/run_on_mutant.sh does for a single change)."""
import json, os, subprocess, sys, time
V = os.path.dirname(os.path.dirname(os.path.abspath(__file__)))
PY = os.path.join(V, ".venv/bin/python")
EXTRA = {"C05_m2": ["c04"], "C10_m1": ["c04"], "C10_m2": ["c04"], "C11_m1": ["c12"], "C11_m2": ["c12"], "C16_m2": ["c06"],
         "C10_m4": ["c05"], "C10_m3": ["c04"], "C05_m6": ["c03"], "C08_m6": ["c09"], "C02_m6": ["c13"], "C13_m6": ["c10"], "C12_m5": ["c13"], "C05_m5": ["c03"], "C10_m5": ["c05", "c04"], "C10_m6": ["c04"], "C11_m5": ["c10"], "C11_m6": ["c13", "c12"], "C08_m5": ["c06"], "C10_m7": ["c04"], "C10_m8": ["c04"], "C05_m7": ["c04"], "C05_m8": ["c04"], "C11_m7": ["c12"], "C13_m7": ["c10", "c12"], "C13_m8": ["c04"], "C16_m8": ["c06"], "C09_m8": ["c08"], "C04_m7": ["c13"], "C03_m7": ["c08"], "C02_m9": ["c07"], "C05_m9": ["c04"], "C10_m9": ["c03"], "C10_m10": ["c04"], "C11_m9": ["c05"], "C11_m10": ["c04"], "C08_m9": ["c03"], "C16_m9": ["c06"], "C16_m10": ["c07"], "C15_m10": ["c14"], "C15_m9": ["c06"], "C13_m10": ["c11", "c10"], "C09_m9": ["c08"],
         "C01_m12": ["c13"], "C05_m11": ["c04"], "C05_m12": ["c04"], "C08_m12": ["c03"], "C10_m11": ["c03"], "C10_m12": ["c04"], "C11_m11": ["c04", "c05"], "C11_m12": ["c04", "c05"],
         "C13_m11": ["c16"], "C13_m12": ["c02"], "C16_m11": ["c06"], "C16_m12": ["c07"]}


def sh(*a, **kw):
    return subprocess.run(a, capture_output=True, text=True, **kw)


def main():
    global TARGET
    if not os.environ.get("SEED_IN_PLACE"):
        TARGET = "/tmp/seedwt_%d" % os.getpid()
        sh("git", "-C", "/repo", "worktree", "remove", "--force", TARGET)
        if sh("git", "-C", "/repo", "worktree", "add", "--detach", TARGET, "HEAD").returncode != 0:
            sys.exit("cannot create scratch worktree")
    try:
        run()
    finally:
        if TARGET != "/repo":
            sh("git", "-C", "/repo", "worktree", "remove", "--force", TARGET)


TARGET = "/repo"


def run():
    ids = sys.argv[1:] or sorted(d for d in os.listdir(os.path.join(V, "seeded")) if os.path.isdir(os.path.join(V, "seeded", d)))
    path = os.path.join(V, "seeded", "MATRIX.json")
    matrix = {}
    env = dict(os.environ, VERIF_TASK_TIMEOUT=os.environ.get("VERIF_TASK_TIMEOUT", "900"), VERIF_EVIDENCE_DIR="/tmp/seed_evidence", QUARA_REPO=TARGET)
    for mid in ids:
        patch = os.path.join(V, "seeded", mid, "patch.diff")
        if sh("git", "-C", TARGET, "diff", "--quiet").returncode != 0:
            sys.exit(TARGET + " has local changes")
        if sh("git", "-C", TARGET, "apply", patch).returncode != 0:
            cur = json.load(open(path)) if os.path.exists(path) else {}
            cur[mid] = {"error": "patch does not apply"}
            json.dump(cur, open(path, "w"), indent=1, sort_keys=True)
            continue
        row = {}
        try:
            meta_p = os.path.join(V, "seeded", mid, "meta.json")
            extra = []
            if os.path.exists(meta_p):
                extra = json.load(open(meta_p)).get("also_run", [])
            for chk in [mid[:3].lower()] + EXTRA.get(mid, []) + extra:  # own check first, then the checks of the properties that own the changed code
                if chk in row or not os.path.exists(os.path.join(V, "checks", chk + ".py")):
                    continue
                t0 = time.time()
                r = sh(PY, os.path.join(V, "checks", chk + ".py"), "--tier", "quick", cwd=V, env=env)
                viol = sorted({l.split("claim")[0].strip()[len("obligation "):] for l in r.stdout.splitlines() if l.strip().startswith("obligation ")})
                row[chk] = {"exit": r.returncode, "violation_lines": sum(1 for l in r.stdout.splitlines() if l.startswith("VIOLATION")),
                            "obligations": viol[:12], "seconds": round(time.time() - t0, 1)}
                print(mid, chk, "exit", r.returncode, f"{time.time() - t0:.0f}s", flush=True)
        finally:
            sh("git", "-C", TARGET, "checkout", "--", ".")
        # several runs may be active at once: re-read, update this row, write back
        cur = json.load(open(path)) if os.path.exists(path) else {}
        cur[mid] = row
        json.dump(cur, open(path, "w"), indent=1, sort_keys=True)


if __name__ == "__main__":
    main()
