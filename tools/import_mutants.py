#!/usr/bin/env python3
"""usage: import_mutants.py <dir containing C??/_mutants/m?/> <origin text>  -- copies new seeded changes into /verif/seeded, confirms each
with tools/verify_mutant.sh, writes meta.json, runs the quick-tier matrix for them"""
import os, sys, json, re, shutil, subprocess
V = os.path.dirname(os.path.dirname(os.path.abspath(__file__)))
src, origin = sys.argv[1], sys.argv[2]
new = []
for pid in sorted(os.listdir(src)):
    md = os.path.join(src, pid, "_mutants")
    if not os.path.isdir(md):
        continue
    for k in sorted(os.listdir(md)):
        d = os.path.join(md, k)
        mid = f"{pid}_{k}"
        dst = os.path.join(V, "seeded", mid)
        if os.path.exists(dst) or not all(os.path.exists(os.path.join(d, f)) for f in ("patch.diff", "demo.py", "notes.md")):
            continue
        os.makedirs(dst)
        for f in ("patch.diff", "demo.py", "notes.md"):
            shutil.copy(os.path.join(d, f), dst)
        r = subprocess.run([os.path.join(V, "tools/verify_mutant.sh"), dst, mid], capture_output=True, text=True)
        line = r.stdout.strip().splitlines()[-1] if r.stdout.strip() else "verify failed: " + r.stderr[-200:]
        open(os.path.join(V, "seeded", "verify.log"), "a").write(line + "\n")
        print(line[:160], flush=True)
        notes = open(os.path.join(dst, "notes.md")).read()
        lines = [l.strip() for l in notes.splitlines() if l.strip()]
        def pick(pats):
            for l in lines:
                for p in pats:
                    if re.search(p, l, re.I):
                        return re.sub(r'^[-*#\s]+', '', l)
            return ''
        head = subprocess.run(["git", "-C", "/repo", "rev-parse", "--short", "HEAD"], capture_output=True, text=True).stdout.strip()
        meta = {"id": mid, "breaks_property": pid, "title": re.sub(r'^[-*#\s]+', '', lines[0])[:160],
                "change": pick([r'^[-*\s]*Change']) or re.sub(r'^[-*#\s]+', '', lines[0]),
                "what_it_breaks": pick([r'^[-*\s]*Breaks']), "needs_to_manifest": pick([r'^[-*\s]*Needs']),
                "origin": origin,
                "confirmed": {"how": f"tools/verify_mutant.sh (scratch worktree of HEAD {head}): demo.py on clean tree, patch applied, demo.py again, pinned pytest suite", "result": line},
                "detection": "see seeded/MATRIX.json", "notes_file": "notes.md (written by the sub-agent that produced the change)"}
        json.dump(meta, open(os.path.join(dst, "meta.json"), "w"), indent=1)
        if "apply=ok demo_clean_rc=0 demo_mut_rc=1 pytest: 113 passed" in line:
            new.append(mid)
        else:
            print("NOT CONFIRMED:", mid)
if new:
    subprocess.run([sys.executable, os.path.join(V, "tools/seed_matrix.py")] + new)
