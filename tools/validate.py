#!/usr/bin/env python3
"""validates MANIFEST.json and every evidence file against the given schemas (run with python3-vt, which has jsonschema)"""
import json, sys, os, jsonschema
V = os.path.dirname(os.path.dirname(os.path.abspath(__file__)))
m = json.load(open(V + "/MANIFEST.json"))
jsonschema.validate(m, json.load(open("/root/.vp/MANIFEST.schema.json")))
es = json.load(open("/root/.vp/EVIDENCE.schema.json"))
bad = 0
for c in m["checks"]:
    p = c["evidence_file"]
    try:
        e = json.load(open(p))
        jsonschema.validate(e, es)
        if e["level"] != c["level_claimed"]["category"]:
            raise ValueError(f"level {e['level']} != manifest category {c['level_claimed']['category']}")
        print(c["property_id"], "ok", e["level"], "tier", e.get("tier"), "evaluations", e["coverage"].get("evaluations"))
    except Exception as ex:
        bad += 1
        print(c["property_id"], "PROBLEM", str(ex)[:300])
sys.exit(1 if bad else 0)
