#!/usr/bin/env python3
"""false-alarm test of the checks: behaviour-preserving refactorings of the library (benign/<id>/patch.diff, each with an equiv.py whose
output must be identical on the clean and on the patched checkout) must leave the quick tier silent (exit 0, no VIOLATION line).
usage: benign_matrix.py import <dir with B??/_benign/<id>/>   -- copy into /verif/benign, confirm each (equiv.py identical, 113 passed)
       benign_matrix.py run [ids...]                          -- run the owning property's check (plus ALSO[id]) on each, write benign/MATRIX.json
                                                                 (BENIGN_TIER=thorough: the thorough tier, benign/MATRIX_thorough.json)
Every change is applied in a scratch worktree of /repo's HEAD (QUARA_REPO points the check at it); /repo is never touched."""
import json, os, shutil, subprocess, sys, time
V = os.path.dirname(os.path.dirname(os.path.abspath(__file__)))
PY = os.path.join(V, ".venv/bin/python")
B = os.path.join(V, "benign")
# checks that execute the changed code besides the property's own
ALSO = {}


def sh(*a, **kw):
    return subprocess.run(a, capture_output=True, text=True, **kw)


def worktree():
    wt = "/tmp/benignwt_%d" % os.getpid()
    sh("git", "-C", "/repo", "worktree", "remove", "--force", wt)
    if sh("git", "-C", "/repo", "worktree", "add", "--detach", wt, "HEAD").returncode != 0:
        sys.exit("cannot create scratch worktree")
    return wt


def do_import(src):
    os.makedirs(B, exist_ok=True)
    wt = worktree()
    try:
        for grp in sorted(os.listdir(src)):
            bd = os.path.join(src, grp, "_benign")
            if not os.path.isdir(bd):
                continue
            for bid in sorted(os.listdir(bd)):
                d, dst = os.path.join(bd, bid), os.path.join(B, bid)
                if os.path.exists(dst) or not all(os.path.exists(os.path.join(d, f)) for f in ("patch.diff", "equiv.py", "notes.md")):
                    continue
                clean = sh("/venv/bin/python", os.path.join(d, "equiv.py"), wt, cwd=wt)
                ap = sh("git", "-C", wt, "apply", os.path.join(d, "patch.diff"))
                if ap.returncode != 0:
                    print(bid, "patch does not apply", flush=True)
                    continue
                pat = sh("/venv/bin/python", os.path.join(d, "equiv.py"), wt, cwd=wt)
                t = sh("/venv/bin/python", "-m", "pytest", "-q", "-p", "no:cacheprovider", "--timeout=900", "--continue-on-collection-errors", cwd=wt)
                tests = (t.stdout.strip().splitlines() or ["?"])[-1]
                sh("git", "-C", wt, "checkout", "--", ".")
                same = clean.returncode == 0 and pat.returncode == 0 and clean.stdout == pat.stdout and len(clean.stdout) > 0
                ok = same and "113 passed" in tests
                print(bid, "equiv identical" if same else f"EQUIV DIFFERS (rc {clean.returncode}/{pat.returncode})", "|", tests[:60], flush=True)
                if not ok:
                    continue
                os.makedirs(dst)
                for f in ("patch.diff", "equiv.py", "notes.md"):
                    shutil.copy(os.path.join(d, f), dst)
                notes = [l.strip() for l in open(os.path.join(d, "notes.md")) if l.strip()]
                head = sh("git", "-C", "/repo", "rev-parse", "--short", "HEAD").stdout.strip()
                json.dump({"id": bid, "property": bid[:3], "change": notes[0].lstrip("-* ")[:600], "why_equivalent": (notes[1].lstrip("-* ") if len(notes) > 1 else "")[:600],
                           "confirmed": f"equiv.py output identical on HEAD {head} and on the patched checkout ({len(clean.stdout)} bytes); pinned suite: {tests}",
                           "origin": "sub-agent given only the property text and a scratch worktree; asked for behaviour-preserving refactorings"},
                          open(os.path.join(dst, "meta.json"), "w"), indent=1)
    finally:
        sh("git", "-C", "/repo", "worktree", "remove", "--force", wt)


def do_run(ids):
    ids = ids or sorted(d for d in os.listdir(B) if os.path.isdir(os.path.join(B, d)))
    tier = os.environ.get("BENIGN_TIER", "quick")
    path = os.path.join(B, "MATRIX.json" if tier == "quick" else f"MATRIX_{tier}.json")
    wt = worktree()
    env = dict(os.environ, VERIF_TASK_TIMEOUT=os.environ.get("VERIF_TASK_TIMEOUT", "900"), VERIF_EVIDENCE_DIR="/tmp/benign_evidence", QUARA_REPO=wt)
    try:
        for bid in ids:
            if sh("git", "-C", wt, "apply", os.path.join(B, bid, "patch.diff")).returncode != 0:
                print(bid, "patch does not apply", flush=True)
                continue
            row = {}
            try:
                for chk in [bid[:3].lower()] + ALSO.get(bid, []):
                    t0 = time.time()
                    r = sh(PY, os.path.join(V, "checks", chk + ".py"), "--tier", tier, cwd=V, env=env)
                    bad = [l.strip()[:300] for l in r.stdout.splitlines() if l.startswith("VIOLATION") or l.strip().startswith("obligation ") or "inconclusive]" in l]
                    row[chk] = {"exit": r.returncode, "lines": bad[:8], "summary": (r.stdout.strip().splitlines() or ["?"])[-1][:200], "seconds": round(time.time() - t0, 1)}
                    print(bid, chk, "exit", r.returncode, f"{time.time() - t0:.0f}s", flush=True)
            finally:
                sh("git", "-C", wt, "checkout", "--", ".")
            cur = json.load(open(path)) if os.path.exists(path) else {}
            cur[bid] = row
            json.dump(cur, open(path, "w"), indent=1, sort_keys=True)
    finally:
        sh("git", "-C", "/repo", "worktree", "remove", "--force", wt)


if __name__ == "__main__":
    if sys.argv[1] == "import":
        do_import(sys.argv[2])
    else:
        do_run(sys.argv[2:])
