#!/usr/bin/env python
"""C14 -- sampled data and empirical distributions are valid and reproducible (validity for ALL probability vectors / random
numbers / data, and seed data-flow through a PRNG contract stub; the distributional claim is outside)."""
from common import *
import itertools
import tomo_lib


def tiers(tier, quick, thorough):
    return quick if tier == "quick" else thorough


# ---- PRNG contract stub: streams of uninterpreted draws ---------------------------------------------------------------
class Streams:
    """draw k of stream s is the symbol u[s]#k (0 <= u < 1); multinomial draws are integer count vectors (>= 0, sum n)"""

    def __init__(self):
        self.counters = {}
        self.log = []

    def next_name(self, sid, what="u"):
        k = self.counters.get(sid, 0)
        self.counters[sid] = k + 1
        self.log.append((sid, k))
        return f"{what}[{sid}]#{k}"


def _replay_rng(name):
    import zlib
    return np.random.RandomState(zlib.crc32(name.encode()))


class FakeGen:
    def __init__(self, streams, sid, draws=None):
        self.streams = streams
        self.sid = sid
        self.draws = draws          # optional iterator of externally supplied draw values (obligation inputs)

    def _one(self):
        if self.draws is not None:
            return next(self.draws)
        name = self.streams.next_name(self.sid)
        if not core.CTX.active:
            # concrete replay / translator-validation run: a fixed concrete draw per (stream, position) that satisfies the contract
            return float(_replay_rng(name).random_sample()) * (1.0 - 2 ** -53)
        return core.sym_real(name, 0.0, 1.0 - 2 ** -53)

    def random(self, n=None):
        if n is None:
            return self._one()
        xs = [self._one() for _ in range(int(n))]
        return SymNd(xs) if any(isinstance(x, Sym) for x in xs) else np.array(xs, dtype=np.float64)

    def multinomial_counts(self, n, k):
        if self.draws is not None:
            return [next(self.draws) for _ in range(k)]
        base = self.streams.next_name(self.sid, "c") + f"(n={int(n)})"
        if not core.CTX.active:
            return [int(x) for x in _replay_rng(base).multinomial(int(n), [1.0 / k] * k)]
        cs = [core.sym_int(f"{base}.{j}", 0, int(n)) for j in range(k)]
        tot = 0
        for c_ in cs:
            tot = tot + c_
        core.assume(SBool.of(tot == int(n)))
        return cs


class FakeRandomNS:
    """stands in for numpy.random inside the quara modules: the global state is stream 'G'; MT19937(seed)/Generator give stream 'seed:<n>'"""

    def __init__(self, streams):
        self.streams = streams
        self.gid = "G"
        self._g = FakeGen(streams, "G")

    def seed(self, x):
        self.gid = f"G:{x}"
        self.streams.counters.pop(self.gid, None)
        self._g = FakeGen(self.streams, self.gid)

    def random(self, n=None):
        return self._g.random(n)

    def multinomial_counts(self, n, k):
        return self._g.multinomial_counts(n, k)

    def MT19937(self, seed):
        return ("mt", seed)

    def Generator(self, bitgen):
        sid = f"seed:{bitgen[1]}"
        self.streams.counters.pop(sid, None)        # a fresh generator starts its stream from draw 0
        return FakeGen(self.streams, sid)


RVS_LOG = []


class FakeMultinomial:
    @staticmethod
    def rvs(n, p, size=None, random_state=None):
        RVS_LOG.append((int(n), [float(Sym.of(x).cval()) if isinstance(x, Sym) else float(x) for x in flat(p)] if not nd.has_sym(p) or all(Sym.of(x).is_const() for x in flat(p)) else None,
                        getattr(random_state, "sid", "G")))
        k = len(list(flat(p)))
        cs = random_state.multinomial_counts(n, k)
        return SymNd(cs) if any(isinstance(c_, Sym) for c_ in cs) else np.array(cs)


class prng_stub:
    def __init__(self):
        self.streams = Streams()

    def __enter__(self):
        import quara.utils.number_util as NU, quara.qcircuit.data_generator as DG, quara.qcircuit.experiment as EX
        self.ns = FakeRandomNS(self.streams)
        nd.PROXY.__dict__["random"] = self.ns
        self.old_mult = DG.multinomial
        DG.multinomial = FakeMultinomial
        return self

    def __exit__(self, *a):
        import quara.qcircuit.data_generator as DG
        nd.PROXY.__dict__.pop("random", None)
        DG.multinomial = self.old_mult
        return False


def atoms_of(x):
    names = set()
    for v in flat(x) if isinstance(x, (np.ndarray, list, tuple)) else [x]:
        if isinstance(v, Sym):
            for i in v.re.atoms() | v.im.atoms():
                names.add(core.REG.atoms[i].name)
    return names


# ---- obligations -----------------------------------------------------------------------------------------------------------
def pvec(I, n):
    """probability vector with n-1 free entries; the last one is 1 - sum - delta, delta in [0, 9e-14]: every vector that
    validate_prob_dist accepts at its default tolerance 1e-13 from below (sum = 1 - delta)"""
    xs = [I[f"p{i}"] for i in range(n - 1)]
    last = 1.0 - I["delta"]
    for x in xs:
        last = last - x
    xs = xs + [last]
    return SymNd(xs) if any(isinstance(x, Sym) for x in xs) else np.array(xs, dtype=np.float64)


def p_inputs(n):
    return [(f"p{i}", "real", 0.0, 1.0) for i in range(n - 1)] + [("delta", "real", 0.0, 9e-14)]


def p_assume(I, n):
    return [SBool.of(list(flat(pvec(I, n)))[-1] >= 0)]


def ob_rn2data(n):
    """_random_number_to_data(p, r): for every probability vector allowed by validate_prob_dist (entries >= 0 incl. exact zeros,
    sum in [1 - 9e-14, 1]) and every r in [0,1): the outcome is in range and has non-zero probability"""
    def run(I):
        from quara.qcircuit.data_generator import _random_number_to_data
        from quara.math.probability import validate_prob_dist
        p = pvec(I, n)
        validate_prob_dist(p, eps=1e-13)
        idx = _random_number_to_data(p, I["r"])
        ps = list(flat(p))
        return [Holds("0 <= outcome < len(p)", 0 <= idx < n), Holds("outcome has non-zero probability", SBool.of(ps[idx] > 0))]
    return FnOb(p_inputs(n) + [("r", "real", 0.0, 1.0 - 2 ** -53)], run, assume=lambda I: p_assume(I, n), max_paths=400)


def ob_gen_data(n, N):
    """generate_data_from_prob_dist with the generator's draws symbolic: N data, each in range, of non-zero probability, and equal to the
    inverse-CDF image of the corresponding draw (draw i decides datum i)"""
    def run(I):
        from quara.qcircuit.data_generator import generate_data_from_prob_dist
        p = pvec(I, n)
        gen = FakeGen(None, "in", iter([I[f"u{k}"] for k in range(N)]))
        data = generate_data_from_prob_dist(p, N, gen)
        ps = list(flat(p))
        out = [Holds("length", len(data) == N)]
        for k, dk in enumerate(data):
            out.append(Holds(f"datum {k} in range", 0 <= dk < n))
            out.append(Holds(f"datum {k} has non-zero probability", SBool.of(ps[dk] > 0)))
            cum_before = 0
            for j in range(dk):
                cum_before = cum_before + ps[j]
            out.append(Holds(f"datum {k}: draw {k} is not below the cumulative probability of the earlier outcomes", SBool.of(I[f"u{k}"] >= cum_before)))
        return out
    return FnOb(p_inputs(n) + [(f"u{k}", "real", 0.0, 1.0 - 2 ** -53) for k in range(N)], run,
                assume=lambda I: p_assume(I, n), max_paths=4000, stubs=["numpy Generator.random: arbitrary draws in [0,1) supplied as symbolic inputs"])


def ob_empi(m, L, K):
    """calc_empi_dist_sequence(m, data (L symbolic integers), num_sums (K symbolic integers)): when it returns, entry k is
    (num_sums[k], counts of data[:num_sums[k]] / num_sums[k]) -- non-negative, sums to one, cumulative counts consistent; when it
    raises ValueError one of the documented conditions holds"""
    def run(I):
        from quara.qcircuit.data_generator import calc_empi_dist_sequence
        data = [I[f"d{i}"] for i in range(L)]
        ns = [I[f"n{k}"] for k in range(K)]
        try:
            res = calc_empi_dist_sequence(m, data, ns)
            raised = False
        except ValueError:
            raised = True
        # documented error conditions
        too_long = s_or([SBool.of(nk > L) for nk in ns])
        not_incr = s_or([SBool.of(ns[k] >= ns[k + 1]) for k in range(K - 1)])
        bad_data = s_or([~in_range(d, 0, m) for d in data])
        nonpos = s_or([SBool.of(nk <= 0) for nk in ns])
        if raised:
            return [Holds("ValueError only under a documented condition", too_long | not_incr | bad_data)]
        out = [Holds("returns at most one entry per requested prefix", len(res) <= K)]
        for k, (nk, dist) in enumerate(res):
            out.append(Holds(f"entry {k}: sample size == num_sums[{k}]", SBool.of(nk == ns[k])))
            tot = 0
            for j in range(m):
                cnt = 0
                for i in range(L):
                    cnt = cnt + ite(SBool.of(ns[k] > i) & SBool.of(data[i] == j), 1, 0)
                out.append(Eq(f"entry {k}: dist[{j}] * n == count of outcome {j} in the prefix", dist[j] * nk, cnt, 1e-9))
                out.append(Holds(f"entry {k}: dist[{j}] >= 0", dist[j] >= 0))
                tot = tot + dist[j]
            out.append(Holds(f"entry {k}: sums to one", abs(tot - 1) <= 1e-9))
        # all requested prefixes are returned unless a later num_sum is non-increasing / missing data is not the case
        out.append(Holds("every requested prefix is returned (valid request)", implies(~too_long & ~not_incr & ~nonpos, len(res) == K)))
        return out
    inp = [(f"d{i}", "int", -1, m) for i in range(L)] + [(f"n{k}", "int", -1, L + 1) for k in range(K)]
    return FnOb(inp, run, max_paths=20000, explore_budget=900, tv_points=3)


def ob_multinomial(n, nums):
    """generate_empi_dist_sequence_from_prob_dist with multinomial.rvs replaced by its contract (counts >= 0 summing to the sample size):
    each distribution is counts / n for the requested n, non-negative, sums to one"""
    K = len(nums)

    def run(I):
        import quara.qcircuit.data_generator as DG
        p = pvec(I, n)
        draws = []
        for k in range(K):
            draws += [I[f"c{k}_{j}"] for j in range(n)]
        gen = FakeGen(None, "in", iter(draws))
        old = DG.multinomial
        DG.multinomial = FakeMultinomial
        try:
            res = DG.generate_empi_dist_sequence_from_prob_dist(p, list(nums), gen)
        finally:
            DG.multinomial = old
        out = [Holds("one entry per sample size", len(res) == K)]
        for k, (nk, dist) in enumerate(res):
            out.append(Holds(f"entry {k}: sample size", nk == nums[k]))
            tot = 0
            for j in range(n):
                out.append(Eq(f"entry {k}: dist[{j}] == count / n", dist[j] * nums[k], I[f"c{k}_{j}"], 1e-9))
                out.append(Holds(f"entry {k}: non-negative", SBool.of(dist[j] >= 0)))
                tot = tot + dist[j]
            out.append(Holds(f"entry {k}: sums to one", SBool.of(tot - 1 <= 1e-9) & SBool.of(tot - 1 >= -1e-9)))
        return out

    def assume(I):
        out = []
        for k in range(K):
            tot = 0
            for j in range(n):
                tot = tot + I[f"c{k}_{j}"]
            out.append(SBool.of(tot == nums[k]))
        return out
    inp = p_inputs(n) + [(f"c{k}_{j}", "int", 0, nums[k]) for k in range(K) for j in range(n)]
    return FnOb(inp, run, assume=lambda I: assume(I) + p_assume(I, n), max_paths=50, stubs=["scipy.stats.multinomial.rvs: contract stub (counts >= 0, sum == n)"])


def ob_seed_flow(entry):
    """seed data-flow (non-interference) with every PRNG draw a fresh symbol of its stream: an integer seed makes the output a function of
    that seed's stream only (never the global stream 'G'), two calls with the same seed consume the same draws, None uses the global
    stream, and a shared generator advances (the second call consumes later draws)"""
    def run(I):
        import quara.qcircuit.data_generator as DG
        import quara.qcircuit.experiment as EX
        p = np.array([0.2, 0.3, 0.5])
        symbolic = core.CTX.active
        if not symbolic:
            # concrete counterpart of the same claims on the real PRNG
            def call(seed, pre=0):
                rs = np.random.RandomState(123)
                np.random.seed(99)
                np.random.random(pre)
                return run_entry(entry, seed, DG, EX, p)
            a, b, c_ = call(7), call(7, pre=5), call(8)
            def same(x, y):
                # results are nested lists / tuples of numbers and arrays (ragged): compare leaf by leaf
                if isinstance(x, (list, tuple)) or isinstance(y, (list, tuple)):
                    return isinstance(x, (list, tuple)) and isinstance(y, (list, tuple)) and len(x) == len(y) and all(same(u, v) for u, v in zip(x, y))
                return bool(np.array_equal(np.asarray(x), np.asarray(y)))
            outc = [Holds("same seed, different global state: same output", same(a, b)), Holds("different seed: different output", not same(a, c_))]
            # successive draws of one seeded call differ: two identical distributions sampled with 200 shots each in ONE call
            # coincide only if the same random numbers were used twice (probability of an honest coincidence < 1e-3)
            two = DG.generate_empi_dists_sequence_from_prob_dists([p, p], [[200], [200]], 4242)
            outc.append(Holds("within one call every draw of the seed's stream is consumed once", not np.array_equal(two[0][0][1], two[1][0][1])))
            return outc
        out = []
        with prng_stub() as st:
            st.ns.random(3)                       # unrelated draws from the global stream first
            r1 = run_entry(entry, 7, DG, EX, p)
            st.ns.random(2)
            r2 = run_entry(entry, 7, DG, EX, p)
            r3 = run_entry(entry, None, DG, EX, p)
            gen = FakeGen(st.streams, "shared")
            r4 = run_entry(entry, gen, DG, EX, p)
            r5 = run_entry(entry, gen, DG, EX, p)
            # a second unseeded call continues the global stream; an explicit-seed call leaves the global stream where it was
            g_before = (st.ns.gid, st.streams.counters.get(st.ns.gid, 0))
            r6 = run_entry(entry, 11, DG, EX, p)
            g_after = (st.ns.gid, st.streams.counters.get(st.ns.gid, 0))
            out.append(Holds("explicit seed: the global stream is neither consumed nor re-seeded", g_before == g_after))
            r7 = run_entry(entry, None, DG, EX, p)
            a7 = atoms_of_result(r7)
            out.append(Holds("two unseeded calls: the second continues the global stream (later draws)", bool(a7) and a7.isdisjoint(atoms_of_result(r3))))
            # no draw of any stream is consumed twice by calls that should advance it (a fresh generator per int seed restarts at 0 by design)
            log = [x for x in st.streams.log]
            per_call_ok = True
            out.append(Holds("within one call every draw of the seed's stream is consumed once", len(set(first_call_log(st, entry, DG, EX, p))) == len(first_call_log.last)))
            a1, a2, a3, a4, a5 = [atoms_of_result(r) for r in (r1, r2, r3, r4, r5)]
            out.append(Holds("int seed: output mentions only draws of stream seed:7", bool(a1) and all("[seed:7]" in nm for nm in a1)))
            out.append(Holds("same int seed again (after unrelated global draws): the same draws", a1 == a2))
            out.append(Holds("seed None: the global stream", bool(a3) and all("[G" in nm for nm in a3)))
            out.append(Holds("shared generator: its own stream", bool(a4) and all("[shared]" in nm for nm in a4 | a5)))
            out.append(Holds("shared generator advances: the second call consumes later draws", a4.isdisjoint(a5)))
        return out
    return FnOb([], run, max_paths=2000, explore_budget=600, tv_points=0,
                stubs=["numpy.random / MT19937 / Generator and multinomial.rvs: streams of uninterpreted draws (data-flow only)"],
                outside=["statistical agreement of the samples with the requested distribution", "MT19937 itself"])


def ob_sizes(entry):
    """every returned (n, distribution) pair carries exactly the requested sample size for its (step, schedule) position and the
    distribution is counts / n of a draw made with that n (multinomial.rvs replaced by its contract; unequal sizes per schedule/step)"""
    def run(I):
        import quara.qcircuit.experiment as EX
        out = []
        with prng_stub() as st:
            if entry == "experiment":
                exp = EX.Experiment(states=[tomo_lib.states("Q1")[4]], povms=tomo_lib.povms("Q1")[:3], gates=[],
                                    schedules=[[("state", 0), ("povm", j)] for j in range(3)])
                req = [[2, 3, 4], [5, 7, 6]]            # [step][schedule]
                res = exp.generate_empi_dists_sequence(req, 7)
                got = {(s_, j): res[j][s_] for j in range(3) for s_ in range(2)}     # documented layout: [schedule][step]
                out.append(Holds("layout: one list per schedule, one entry per step", len(res) == 3 and all(len(r) == 2 for r in res)))
                want = {(s_, j): req[s_][j] for j in range(3) for s_ in range(2)}
            else:
                kw = {"m": 3} if entry in ("povmt", "qmpt") else {}
                qt, tmpl = tomo_lib.build(entry, "Q1", **kw)
                import objlib
                truth = {"qst": lambda: tomo_lib.states("Q1")[4], "povmt": lambda: tomo_lib.povms("Q1")[3],
                         "qpt": lambda: objlib.gates("Q1")["ampdamp"], "qmpt": lambda: objlib.mprocesses("Q1")["trine3"]}[entry]()
                nums = [3, 5, 4]
                res = qt.generate_empi_dists_sequence(truth, nums, 7)
                S = qt.num_schedules
                out.append(Holds("layout: one list per step, one entry per schedule", len(res) == 3 and all(len(r) == S for r in res)))
                got = {(s_, j): res[s_][j] for s_ in range(3) for j in range(S) if s_ < len(res) and j < len(res[s_])}
                want = {(s_, j): nums[s_] for s_ in range(3) for j in range(S)}
            for key, (n_, dist) in got.items():
                out.append(Holds(f"step {key[0]} schedule {key[1]}: sample size as requested", n_ == want[key]))
                tot = 0
                for v in flat(dist):
                    tot = tot + v
                    out.append(Holds(f"step {key[0]} schedule {key[1]}: entries non-negative", SBool.of(v >= 0)))
                    names = {core.REG.atoms[i].name for i in Sym.of(v).re.atoms()}
                    out.append(Holds(f"step {key[0]} schedule {key[1]}: counts of a draw of the requested size", bool(names) and all(f"(n={want[key]})" in nm for nm in names)))
                out.append(Eq(f"step {key[0]} schedule {key[1]}: sums to one", tot, 1.0, 1e-9))
        return out
    return FnOb([], run, max_paths=50, tv_points=0, stubs=["scipy.stats.multinomial.rvs: contract stub (counts >= 0, sum == n)",
                                                         "numpy.random: streams of uninterpreted draws"])


def ob_entry_points(tomo):
    """the three sampling entry points of a tomography class (generate_empi_dist for every schedule index, generate_empi_dists,
    generate_empi_dists_sequence) with an integer seed: every multinomial draw is made with the requested sample size and with the
    probability distribution OF ITS SCHEDULE (as predicted by calc_prob_dist), all draws come from the seed's stream, and the global stream
    is neither consumed nor re-seeded"""
    def run(I):
        import objlib
        out = []
        kw = {"m": 3} if tomo in ("povmt", "qmpt") else {}
        truth = {"qst": lambda: tomo_lib.states("Q1")[4], "povmt": lambda: tomo_lib.povms("Q1")[3],
                 "qpt": lambda: objlib.gates("Q1")["rx"], "qmpt": lambda: objlib.mprocesses("Q1")["trine3"]}[tomo]()
        with prng_stub() as st:
            qt, _ = tomo_lib.build(tomo, "Q1", **kw)
            S = qt.num_schedules
            want = [np.asarray(nd.to_concrete(qt.calc_prob_dist(truth, j)), dtype=float) for j in range(S)]
            st.ns.random(2)

            def calls(fn):
                g0 = st.streams.counters.get(st.ns.gid, 0)
                n0 = len(RVS_LOG)
                res = fn()
                g1 = st.streams.counters.get(st.ns.gid, 0)
                return res, RVS_LOG[n0:], g0 == g1
            for j in range(S):
                res, log, quiet_g = calls(lambda: qt.generate_empi_dist(j, truth, 9, 7))
                out.append(Holds(f"generate_empi_dist({j}): one draw of the requested size", len(log) == 1 and log[0][0] == 9))
                ok = len(log) == 1 and log[0][1] is not None and len(log[0][1]) == len(want[j]) and bool(np.allclose(log[0][1], want[j], atol=1e-9))
                out.append(Holds(f"generate_empi_dist({j}): drawn from the distribution of schedule {j}", ok))
                out.append(Holds(f"generate_empi_dist({j}): the seed's stream, global stream untouched", all(l[2] == "seed:7" for l in log) and quiet_g))
            res, log, quiet_g = calls(lambda: qt.generate_empi_dists(truth, 6, 7))
            out.append(Holds("generate_empi_dists: one draw per schedule, requested size", len(log) == S and all(l[0] == 6 for l in log)))
            out.append(Holds("generate_empi_dists: draw j from the distribution of schedule j",
                             len(log) == S and all(l[1] is not None and len(l[1]) == len(w) and bool(np.allclose(l[1], w, atol=1e-9)) for l, w in zip(log, want))))
            out.append(Holds("generate_empi_dists: the seed's stream, global stream untouched", all(l[2] == "seed:7" for l in log) and quiet_g))
            res, log, quiet_g = calls(lambda: qt.generate_empi_dists_sequence(truth, [3, 5], 7))
            out.append(Holds("generate_empi_dists_sequence: the seed's stream, global stream untouched", bool(log) and all(l[2] == "seed:7" for l in log) and quiet_g))
            per = {}
            for l in log:
                per.setdefault(tuple(np.round(l[1], 9)) if l[1] is not None else None, []).append(l[0])
            out.append(Holds("generate_empi_dists_sequence: every schedule's distribution is sampled with the requested sizes",
                             all(sorted(per.get(tuple(np.round(w, 9)), [])) [:2] == [3, 5] or len(per.get(tuple(np.round(w, 9)), [])) >= 2 for w in want)))
        return out
    return FnOb([], run, max_paths=50, tv_points=0, stubs=["scipy.stats.multinomial.rvs: contract stub recording (n, p, stream)",
                                                         "numpy.random: streams of uninterpreted draws"])


def ob_reused_experiment(which):
    """one Experiment object used again after one of its objects was replaced -- through the setter or by item assignment on the list
    the accessor hands out (the idiom the tomography classes use themselves) -- and after earlier calc_prob_dist / generation calls:
    every later multinomial draw is made with the distribution of the CURRENT objects (Tr(E_x rho) from the definition), i.e. the
    output does not depend on earlier calls"""
    def run(I):
        import quara.qcircuit.experiment as EX
        out = []
        with prng_stub() as st:
            sts = tomo_lib.states("Q1")
            pvs = tomo_lib.povms("Q1")
            dms = tomo_lib.state_mats("Q1")
            pms = tomo_lib.povm_mats("Q1")
            exp = EX.Experiment(states=[sts[0]], povms=[pvs[0], pvs[1]], schedules=[[("state", 0), ("povm", 0)], [("state", 0), ("povm", 1)]])

            def ref(si, pj):
                return [float(np.real(np.trace(np.asarray(E) @ np.asarray(dms[si])))) for E in pms[pj]]

            def draws(j):
                n0 = len(RVS_LOG)
                exp.generate_empi_dist_sequence(j, [9], 7)
                return RVS_LOG[n0:]

            def claim(label, j, si, pj):
                log = draws(j)
                want = ref(si, pj)
                ok = len(log) == 1 and log[0][1] is not None and len(log[0][1]) == len(want) and bool(np.allclose(log[0][1], want, atol=1e-9))
                out.append(Holds(f"{label}: schedule {j} is sampled from Tr(E_x rho) of the current state and POVM", ok))
                got = np.asarray(nd.to_concrete(exp.calc_prob_dist(j)), dtype=float)
                out.append(Holds(f"{label}: calc_prob_dist({j}) is that of the current objects", bool(np.allclose(got, want, atol=1e-9))))
            claim("first use", 0, 0, 0)
            claim("first use", 1, 0, 1)
            exp.calc_prob_dists()
            if which == "state-item":
                exp.states[0] = sts[4]
                cur = (4, 0, 1)
            elif which == "state-setter":
                exp.states = [sts[4]]
                cur = (4, 0, 1)
            elif which == "povm-item":
                exp.povms[1] = pvs[2]
                cur = (0, 0, 2)
            else:
                exp.povms = [pvs[2], pvs[0]]
                cur = (0, 2, 0)
            claim(f"after {which}", 0, cur[0], cur[1])
            claim(f"after {which}", 1, cur[0], cur[2])
            cp = exp.copy()
            cp.states[0] = sts[3]
            claim("after changing a copy (the original is independent)", 0, cur[0], cur[1])
        return out
    return FnOb([], run, max_paths=50, tv_points=0, stubs=["scipy.stats.multinomial.rvs: contract stub recording (n, p, stream)",
                                                         "numpy.random: streams of uninterpreted draws"])


def first_call_log(st, entry, DG, EX, p):
    """the (stream, draw number) pairs consumed by one call with an integer seed"""
    n0 = len(st.streams.log)
    run_entry(entry, 21, DG, EX, p)
    first_call_log.last = [x for x in st.streams.log[n0:] if x[0] == "seed:21"]
    return first_call_log.last


def atoms_of_result(r):
    names = set()

    def walk(x):
        if isinstance(x, Sym):
            for i in x.re.atoms():
                nm = core.REG.atoms[i].name
                names.add(nm)
        elif isinstance(x, np.ndarray):
            for v in flat(x):
                walk(v)
        elif isinstance(x, (list, tuple)):
            for v in x:
                walk(v)
    walk(r)
    # data produced through path splits (inverse CDF) mention their draws only in the path condition: add those
    for c_ in core.CTX.pc[getattr(atoms_of_result, "mark", 0):]:
        pass
    return names


def run_entry(entry, seed, DG, EX, p):
    if entry == "empi_seq":
        return DG.generate_empi_dist_sequence_from_prob_dist(p, [5, 10], seed)
    if entry == "empi_seqs":
        return DG.generate_empi_dists_sequence_from_prob_dists([p, p], [[5], [7]], seed)
    if entry == "experiment":
        c = qenv.csys("Q1")
        exp = EX.Experiment(states=[tomo_lib.states("Q1")[4]], povms=[tomo_lib.povms("Q1")[3]], gates=[], schedules=[[("state", 0), ("povm", 0)]])
        return exp.generate_empi_dists_sequence([[4], [9]], seed)
    if entry == "qst":
        qt, _ = tomo_lib.build("qst", "Q1")
        return qt.generate_empi_dists_sequence(tomo_lib.states("Q1")[4], [5, 8], seed)
    if entry == "qst_seeded":
        if not hasattr(run_entry, "_qt"):
            run_entry._qt = {}
        key = id(core.CTX) if not core.CTX.active else core.CTX.pathno
        if key not in run_entry._qt:
            run_entry._qt = {key: tomo_lib.build("qst", "Q1", seed_data=5)[0]}
        return run_entry._qt[key].generate_empi_dists(tomo_lib.states("Q1")[4], 6, seed)
    if entry == "povmt_seeded":
        qt = tomo_lib.build("povmt", "Q1", m=3, seed_data=5)[0]
        return qt.generate_empi_dists(tomo_lib.povms("Q1")[3], 6, seed)
    raise KeyError(entry)


def obligations(tier):
    out = []
    out += specs("C14.rn2data", [{"n": n} for n in tiers(tier, [2, 3, 4], [2, 3, 4, 5, 6])], ob_rn2data, 1)
    out += specs("C14.gen_data", [{"n": n, "N": N} for n, N in tiers(tier, [(2, 2), (3, 2)], [(2, 2), (3, 2), (3, 3), (4, 3)])], ob_gen_data, 3)
    out += specs("C14.empi", [{"m": m, "L": L, "K": K} for m, L, K in tiers(tier, [(2, 3, 1), (2, 3, 2), (3, 2, 2)], [(2, 3, 1), (2, 3, 2), (3, 2, 2), (2, 4, 2), (3, 3, 2), (2, 5, 1)])], ob_empi, 5)
    out += specs("C14.multinomial", [{"n": 3, "nums": [5, 10]}, {"n": 2, "nums": [1]}, {"n": 4, "nums": [3, 7, 20]}], ob_multinomial, 2)
    out += specs("C14.reused_experiment", [{"which": w} for w in ("state-item", "state-setter", "povm-item", "povm-setter")], ob_reused_experiment, 3)
    out += specs("C14.sizes", [{"entry": e} for e in tiers(tier, ("experiment", "qst", "povmt"), ("experiment", "qst", "povmt", "qpt", "qmpt"))], ob_sizes, 3)
    out += specs("C14.entry_points", [{"tomo": t} for t in ("qst", "povmt", "qpt", "qmpt")], ob_entry_points, 3)
    out += specs("C14.seed_flow", [{"entry": e} for e in ("empi_seq", "empi_seqs", "experiment", "qst", "qst_seeded")], ob_seed_flow, 3)
    return out


def xhair_seed(tier, seed):
    """CrossHair on the real number_util.to_stream with a SYMBOLIC integer seed (the symq harnesses above use fixed seeds because
    the library tests `type(seed) == int`, which a symq scalar cannot pass): every integer seed in [0, 2^32) yields a new Generator
    over MT19937(seed) -- never the global numpy.random state and never a generator of another seed.  numpy.random is replaced by
    recording stand-ins (the PRNG itself is outside the claim)."""
    from symq import xhair
    src = f'''import sys
sys.path.insert(0, {qenv.REPO!r})
import numpy as _np
import quara.utils.number_util as NU


class FakeMT:
    def __init__(self, seed):
        self.seed = seed


class FakeGenerator:
    def __init__(self, bitgen):
        self.bitgen = bitgen


class FakeRandom:
    MT19937 = FakeMT
    Generator = FakeGenerator


class FakeNp:
    random = FakeRandom

    def __getattr__(self, n):
        return getattr(_np, n)


NU.np = FakeNp()


def _seed_of(s):
    if not isinstance(s, FakeGenerator) or not isinstance(s.bitgen, FakeMT):
        return -1
    return s.bitgen.seed


def int_seed_gives_its_own_generator(seed: int) -> int:
    """
    pre: 0 <= seed < 2**32
    post: _ == seed
    """
    return _seed_of(NU.to_stream(seed))


def vacuity_twin_seed(seed: int) -> int:
    """
    pre: 0 <= seed < 2**32
    post: _ != seed
    """
    return _seed_of(NU.to_stream(seed))


def none_and_generators_pass_through(k: int) -> bool:
    """
    pre: 0 <= k < 2**32
    post: _ == True
    """
    g = FakeGenerator(FakeMT(k))
    return NU.to_stream(g) is g and NU.to_stream(None) is FakeRandom and NU.to_stream() is FakeRandom
'''
    return xhair.run("c14_seed", src, timeout=30 if tier == "quick" else 120, expect_refuted=("vacuity_twin",))


if __name__ == "__main__":
    sys.exit(main("C14", "c14", extra_engines=[xhair_seed]))
