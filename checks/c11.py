#!/usr/bin/env python
"""C11 -- backtracking projected-gradient loss minimisation: along a run the loss never increases and every iterate is feasible;
stopping criteria and the momentum / FISTA update rules compute what they document (one inductive step from an arbitrary state,
loss / gradient / projection uninterpreted)."""
from common import *
from algo_h import *

MODES = ["single_difference_loss", "sum_absolute_difference_loss", "sum_absolute_difference_variable", "sum_absolute_difference_projected_gradient"]


def tiers(tier, quick, thorough):
    return quick if tier == "quick" else thorough


def ob_backtracking_step(n, mode, iters, hist, maxh=2):
    """ProjectedGradientDescentBacktracking.optimize from an arbitrary start x0 (assumed feasible: P(x0) = x0 is NOT needed for
    the claims below except descent), f, grad f, P uninterpreted, mu, gamma, eps symbolic > 0, max_iteration = iters, alpha halving
    explored to depth 4:
      * x_next == x_prev + alpha * (P(x_prev - g(x_prev)/mu) - x_prev), alpha = 2^-j  (convex combination of x_prev and a projected point)
      * Armijo exit: f(x_next) <= f(x_prev) + gamma*alpha*<y, g>
      * with the nearest-point axiom instance <x_prev - g/mu - P, x_prev - P> <= 0 (P projects onto a convex set containing x_prev):
        f(x_next) <= f(x_prev)  (the loss never increases)
      * error value of the selected stopping mode == documented quantity; loop stops iff windowed sum <= eps; history consistent"""
    MAXH = maxh

    def run(I):
        from quara.minimization_algorithm.projected_gradient_descent_backtracking import (
            ProjectedGradientDescentBacktracking, ProjectedGradientDescentBacktrackingOption)
        x0 = vec_of(I, "x", n)
        mu, gamma, eps = I["mu"], I["gamma"], I["eps"]
        loss = UFLoss(n, max_points=line_search_limit(iters, MAXH))
        P = uf_proj(n)
        algo = ProjectedGradientDescentBacktracking(func_proj=P)
        opt = ProjectedGradientDescentBacktrackingOption(var_start=x0, mu=mu, gamma=gamma, eps=eps, max_iteration_optimization=iters,
                                                        mode_stopping_criterion_gradient_descent=mode,
                                                        num_history_stopping_criterion_gradient_descent=2)
        algo.set_from_loss(loss)
        algo.set_from_option(opt)
        # bound the alpha-halving loop: deeper than MAXH halvings is outside the claim.  The bound is placed on the harness' own loss
        # object (distinct evaluation points) and on the recorded step sizes, never on a private method of the algorithm
        res = quiet(algo.optimize, loss, None, opt, on_iteration_history=hist)
        if hist:
            outside_if_deeper(res.alpha, MAXH)
        out = []
        if not hist:
            return [Holds("result is an array of n variables", len(flat(res.value)) == n)]
        k = res.k
        out.append(Holds("history lengths", len(res.x) == k + 1 and len(res.y) == k and len(res.alpha) == k and len(res.fx) == k + 1 and len(res.error_values) == k))
        out.append(Eq("x[0] is the start point", res.x[0], x0, 0.0))
        errs = []
        for j in range(k):
            xp, xn, y, al = res.x[j], res.x[j + 1], res.y[j], res.alpha[j]
            gp = loss.gradient(xp)
            fp, fn_ = loss.value(xp), loss.value(xn)
            Pz = P(np.asarray(xp, dtype=object) - np.asarray(gp, dtype=object) / mu)
            out.append(Holds(f"step {j}: alpha is 2^-i, i<={MAXH}", al in [2.0 ** (-i) for i in range(MAXH + 1)]))
            out.append(Eq(f"step {j}: y == P(x - g/mu) - x", y, np.asarray(Pz, dtype=object) - np.asarray(xp, dtype=object), 1e-9))
            out.append(Eq(f"step {j}: x_next == (1-alpha) x + alpha P(x - g/mu)", xn,
                          np.asarray(xp, dtype=object) * (1 - al) + np.asarray(Pz, dtype=object) * al, 1e-9))
            ip = dot(y, gp)
            out.append(Holds(f"step {j}: Armijo exit condition f(x_next) <= f(x) + gamma alpha <y,g>", SBool.of(fn_ <= fp + gamma * al * ip)))
            # nearest-point axiom instance at the point that occurs (x_prev in the convex set, P its projection):
            vi = SBool.of(dot(np.asarray(xp, dtype=object) - np.asarray(gp, dtype=object) / mu - np.asarray(Pz, dtype=object),
                              np.asarray(xp, dtype=object) - np.asarray(Pz, dtype=object)) <= 0)
            if j == 0:
                # one inductive step from the arbitrary start state covers runs of any length
                out.append(Holds(f"step {j}: projection axiom => loss does not increase", implies(vi, SBool.of(fn_ <= fp))))
            out.append(Eq(f"step {j}: fx history", res.fx[j + 1], fn_, 0.0))
            if mode == "single_difference_loss":
                e = fp - fn_
            elif mode == "sum_absolute_difference_loss":
                e = abs(Sym.of(fp - fn_)) if isinstance(fp - fn_, Sym) else abs(fp - fn_)
            elif mode == "sum_absolute_difference_variable":
                e = Sym.of(sqnorm(np.asarray(xp, dtype=object) - np.asarray(xn, dtype=object))).sqrt() if nd.has_sym(xn) or nd.has_sym(xp) else float(np.sqrt(sqnorm(np.asarray(xp) - np.asarray(xn))))
            else:
                e = Sym.of(sqnorm(y)).sqrt() if nd.has_sym(y) else float(np.sqrt(sqnorm(y)))
            errs.append(e)
            out.append(Eq(f"step {j}: error value of mode {mode}", res.error_values[j], e, 1e-9))
        # stopping: after step j the windowed sum (window 2) decides
        for j in range(k):
            w = errs[max(0, j - 1):j + 1]
            tot = 0
            for t in w:
                tot = tot + t
            if j < k - 1:
                out.append(Holds(f"continued after step {j} => windowed error sum > eps", SBool.of(tot > eps)))
            elif k < iters:
                out.append(Holds(f"stopped after step {j} => windowed error sum <= eps", SBool.of(tot <= eps)))
        out.append(Eq("returned value == last iterate", res.value, res.x[-1], 0.0))
        return out
    inp = reals("x", n, -5.0, 5.0) + [("mu", "real", 0.1, 10.0), ("gamma", "real", 0.01, 0.9), ("eps", "real", 1e-12, 1e-2)]
    return FnOb(inp, run, max_paths=400, expect_nonlinear=True, explore_budget=200, exact_timeout_ms=30000,
                stubs=["loss value / gradient and the projection: uninterpreted functions f, g_i, P_i"],
                outside=["alpha halving deeper than the unrolled depth (2 quick / 4 thorough)", "that the limit is the constrained minimiser; agreement with the CVXPY/SCS estimator",
                         "max_iteration beyond the unrolled bound (one inductive step from an arbitrary state covers any length)"])


def ob_option_untouched(n, algo_name):
    """optimising leaves the option object handed in unchanged (defaults derived during the run -- mu, the start point -- are not
    written back into it): the same option can be re-used for a problem of another size"""
    def run(I):
        import quara.minimization_algorithm.projected_gradient_descent_backtracking as B
        import quara.minimization_algorithm.projected_gradient_descent_with_momentum as M
        import quara.minimization_algorithm.projected_fast_iterative_shrinkage_thresholding_algorithm as F
        x0 = vec_of(I, "x", n)
        loss = UFLoss(n)
        P = uf_proj(n)
        if algo_name == "backtracking":
            algo, opt = B.ProjectedGradientDescentBacktracking(func_proj=P), B.ProjectedGradientDescentBacktrackingOption(var_start=x0, max_iteration_optimization=1)
        elif algo_name == "momentum":
            algo, opt = M.ProjectedGradientDescentWithMomentum(func_proj=P), M.ProjectedGradientDescentWithMomentumOption(var_start=x0, max_iteration_optimization=1)
        else:
            algo, opt = F.ProjectedFastIterativeShrinkageThresholdingAlgorithm(func_proj=P), F.ProjectedFastIterativeShrinkageThresholdingAlgorithmOption(var_start=x0, max_iteration_optimization=1)
        before = {k: v for k, v in vars(opt).items() if not isinstance(v, np.ndarray)}
        algo.set_from_loss(loss)
        algo.set_from_option(opt)
        loss.max_points = line_search_limit(1, 2)
        quiet(algo.optimize, loss, None, opt)
        after = {k: v for k, v in vars(opt).items() if not isinstance(v, np.ndarray)}
        out = []
        for k in sorted(before):
            same = (before[k] is after.get(k)) or (before[k] == after.get(k))
            out.append(Holds(f"option attribute {k} unchanged by optimize", bool(same) if not isinstance(same, SBool) else same))
        out.append(Holds("no attribute added to the option", sorted(before) == sorted(after)))
        return out
    return FnOb(reals("x", n, -2.0, 2.0), run, max_paths=200, expect_nonlinear=True, tv_points=0)


def ob_momentum_rule(n, mode, iters):
    """ProjectedGradientDescentWithMomentum: moment' = zeta*moment - gamma*g(x), x' = P(x + moment'), gamma = 1/(2 r sqrt(n)); zeta
    schedule driven by ceil(log10 f) (uninterpreted)"""
    def run(I):
        from quara.minimization_algorithm.projected_gradient_descent_with_momentum import (
            ProjectedGradientDescentWithMomentum, ProjectedGradientDescentWithMomentumOption)
        x0 = vec_of(I, "x", n)
        r, eps = I["r"], I["eps"]
        loss = UFLoss(n)
        P = uf_proj(n)
        algo = ProjectedGradientDescentWithMomentum(func_proj=P)
        opt = ProjectedGradientDescentWithMomentumOption(var_start=x0, r=r, eps=eps, max_iteration_optimization=iters,
                                                         mode_stopping_criterion_gradient_descent=mode)
        algo.set_from_loss(loss)
        algo.set_from_option(opt)
        res = quiet(algo.optimize, loss, None, opt, on_iteration_history=True)
        k = res.k
        gamma = 1 / (2 * r * np.sqrt(n))
        out = [Holds("history lengths", len(res.x) == k + 1)]
        out.append(Holds("moment / zeta histories", len(res.moment) == k + 1 and len(res.zeta) == k + 1))
        out.append(Eq("moment[0] == 0", res.moment[0], np.zeros(n), 0.0))
        for j in range(k):
            xp, xn = res.x[j], res.x[j + 1]
            zeta = res.zeta[j + 1]
            out.append(Holds(f"step {j}: zeta is the previous zeta or 1-(1-zeta)*0.95", (zeta == res.zeta[j]) or abs(zeta - (1 - (1 - res.zeta[j]) * 0.95)) < 1e-15))
            m2 = np.asarray(res.moment[j], dtype=object) * zeta - np.asarray(loss.gradient(xp), dtype=object) * gamma
            out.append(Eq(f"step {j}: moment' == zeta*moment - gamma*g(x), gamma = 1/(2 r sqrt n)", res.moment[j + 1], m2, 1e-9))
            out.append(Eq(f"step {j}: x' == P(x + moment')", xn, P(np.asarray(xp, dtype=object) + np.asarray(res.moment[j + 1], dtype=object)), 1e-9))
        out.append(Eq("returned value == last iterate", res.value, res.x[-1], 0.0))
        return out
    inp = reals("x", n, -5.0, 5.0) + [("r", "real", 0.1, 10.0), ("eps", "real", 1e-12, 1e-2)]
    return FnOb(inp, run, max_paths=200, expect_nonlinear=True, stubs=["f, g, P uninterpreted; ceil(log10(.)) uninterpreted"])


def ob_fista_rule(n, mode, iters):
    """ProjectedFastIterativeShrinkageThresholdingAlgorithm: x_{k+1} = P(x_k + (k-2)/(k+1) (x_k - x_{k-1}) - delta g(x_k))"""
    def run(I):
        from quara.minimization_algorithm.projected_fast_iterative_shrinkage_thresholding_algorithm import (
            ProjectedFastIterativeShrinkageThresholdingAlgorithm as A, ProjectedFastIterativeShrinkageThresholdingAlgorithmOption as O)
        x0 = vec_of(I, "x", n)
        delta, eps = I["delta"], I["eps"]
        loss = UFLoss(n)
        P = uf_proj(n)
        algo = A(func_proj=P)
        opt = O(var_start=x0, delta=delta, eps=eps, max_iteration_optimization=iters, mode_stopping_criterion_gradient_descent=mode)
        algo.set_from_loss(loss)
        algo.set_from_option(opt)
        res = quiet(algo.optimize, loss, None, opt, on_iteration_history=True)
        k = res.k
        out = [Holds("history lengths", len(res.x) == k + 1), Eq("x[0]", res.x[0], x0, 0.0)]
        for j in range(k):
            kk = j + 1
            xp = np.asarray(res.x[j], dtype=object)
            xpp = np.asarray(res.x[j - 1], dtype=object) if j >= 1 else xp
            tmp = xp + (xp - xpp) * ((kk - 2) / (kk + 1)) - np.asarray(loss.gradient(res.x[j]), dtype=object) * delta
            out.append(Eq(f"step {j}: x' == P(x + (k-2)/(k+1)(x - x_prev) - delta g(x))", res.x[j + 1], P(tmp), 1e-9))
        out.append(Eq("returned value == last iterate", res.value, res.x[-1], 0.0))
        return out
    inp = reals("x", n, -5.0, 5.0) + [("delta", "real", 0.01, 1.0), ("eps", "real", 1e-12, 1e-2)]
    return FnOb(inp, run, max_paths=200, expect_nonlinear=True, stubs=["f, g, P uninterpreted"])


def obligations(tier):
    out = []
    out += specs("C11.option_untouched", [{"n": 2, "algo_name": a} for a in ("backtracking", "momentum", "fista")], ob_option_untouched, 1)
    for n in tiers(tier, [2], [2, 3]):
        for mode in MODES:
            out += specs("C11.backtracking", [{"n": n, "mode": mode, "iters": 1, "hist": True, "maxh": tiers(tier, 2, 4)}], ob_backtracking_step, 5)
        out += specs("C11.backtracking", [{"n": n, "mode": mode, "iters": 2, "hist": True, "maxh": tiers(tier, 1, 2)} for mode in tiers(tier, MODES[:1], MODES)], ob_backtracking_step, 9)
        out += specs("C11.backtracking", [{"n": n, "mode": MODES[0], "iters": 1, "hist": False, "maxh": 2}], ob_backtracking_step, 1)
        for mode in tiers(tier, MODES[:1], MODES):
            out += specs("C11.momentum", [{"n": n, "mode": mode, "iters": 2}], ob_momentum_rule, 3)
            out += specs("C11.fista", [{"n": n, "mode": mode, "iters": it} for it in (2, 3)], ob_fista_rule, 3)
    return out


if __name__ == "__main__":
    sys.exit(main("C11", "c11"))
