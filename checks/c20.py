#!/usr/bin/env python
"""C20 -- experiments and tomographies accept exactly the well-formed schedules."""
from common import *
import itertools

KINDS = ["state", "povm", "gate", "mprocess", "bogus"]
LISTS = ["state", "povm", "gate", "mprocess"]


def tiers(tier, quick, thorough):
    return quick if tier == "quick" else thorough


def spec_accepts(kinds, idx, sizes):
    """the property's rule, written directly: >= 2 items, known kinds, in-range indices, starts with the only state,
    at most one POVM, ends with a POVM or measurement process"""
    if len(kinds) < 2:
        return False
    for k in kinds:
        if k not in LISTS:
            return False
    rng = s_and([in_range(i, 0, sizes[k]) for k, i in zip(kinds, idx)])
    if kinds[0] != "state" or kinds[-1] not in ("povm", "mprocess"):
        return False
    if kinds.count("state") != 1 or kinds.count("povm") > 1:
        return False
    return rng


def _sym_or_int(x):
    return x


def make_exp(E, sched_list, sizes):
    return E.Experiment(schedules=sched_list, states=[None] * sizes["state"], povms=[None] * sizes["povm"],
                        gates=[None] * sizes["gate"], mprocesses=[None] * sizes["mprocess"])


def try_accept(E, f):
    try:
        r = f()
        return "accept", r
    except E.QuaraScheduleItemError:
        return "item", None
    except E.QuaraScheduleOrderError:
        return "order", None


def ob_exp_ctor(L, sizes, pos):
    """Experiment(...) with one schedule of L items whose kinds are symbolic selectors (forked over the 5 kinds) and
    whose indices are unbounded symbolic integers; a second, valid schedule before/after it (pos)"""
    sz = dict(zip(LISTS, sizes))

    def run(I):
        import quara.qcircuit.experiment as E
        kinds = [KINDS[int(I[f"k{j}"])] for j in range(L)]     # int() forks over the kinds when symbolic
        idx = [I[f"i{j}"] for j in range(L)]
        sched = [(k, i) for k, i in zip(kinds, idx)]
        good = [("state", 0), ("povm", 0)] if sz["state"] > 0 and sz["povm"] > 0 else None
        if pos == "alone" or good is None:
            lst = [sched]
        elif pos == "after":
            lst = [good, sched]
        else:
            lst = [sched, good]
        res, exp = try_accept(E, lambda: make_exp(E, lst, sz))
        ok = spec_accepts(kinds, idx, sz)
        out = [Holds("accepted <=> well-formed", iff(res == "accept", ok))]
        if res == "accept":
            out.append(Holds("schedules stored", exp.schedules is lst))
        return out
    inputs = [(f"k{j}", "int", 0, 4) for j in range(L)] + [(f"i{j}", "int", None, None) for j in range(L)]
    return FnOb(inputs, run, max_paths=80000, explore_budget=600, tv_points=3)


def ob_exp_copy(L, sizes):
    """Experiment.copy() of an accepted experiment whose (symbolic-index) schedule may use every list: the copy is accepted too, holds
    the same objects in lists of the same lengths (all FIVE attributes -- states, povms, gates, mprocesses, schedules), its lists are
    not the original's list objects, and a schedule the original accepts is accepted by the copy's schedule setter"""
    sz = dict(zip(LISTS, sizes))

    def run(I):
        import quara.qcircuit.experiment as E
        kinds = ["state"] + [["gate", "mprocess"][int(I[f"k{j}"])] for j in range(1, L - 1)] + [["povm", "mprocess"][int(I[f"k{L - 1}"])]]
        idx = [I[f"i{j}"] for j in range(L)]
        sched = [(k, i) for k, i in zip(kinds, idx)]
        import tomo_lib, objlib
        pool = {"state": tomo_lib.states("Q1"), "povm": tomo_lib.povms("Q1"), "gate": list(objlib.gates("Q1").values()),
                "mprocess": list(objlib.mprocesses("Q1").values())}
        marks = {k: list(pool[k][:sz[k]]) for k in LISTS}
        res, exp = try_accept(E, lambda: E.Experiment(schedules=[sched], states=list(marks["state"]), povms=list(marks["povm"]),
                                                      gates=list(marks["gate"]), mprocesses=list(marks["mprocess"])))
        if res != "accept":
            return [Holds("accepted <=> well-formed", iff(False, spec_accepts(kinds, idx, sz)))]
        res2, cp = try_accept(E, lambda: exp.copy())
        out = [Holds("the copy of an accepted experiment is accepted", res2 == "accept")]
        if res2 != "accept":
            return out
        for k, attr in (("state", "states"), ("povm", "povms"), ("gate", "gates"), ("mprocess", "mprocesses")):
            got = list(getattr(cp, attr))
            out.append(Holds(f"copy.{attr} holds the same objects", len(got) == len(marks[k]) and all(a is b for a, b in zip(got, marks[k]))))
            out.append(Holds(f"copy.{attr} is its own list", getattr(cp, attr) is not getattr(exp, attr)))
        out.append(Holds("copy.schedules equal the original's", [list(map(tuple, s_)) for s_ in cp.schedules] == [list(map(tuple, s_)) for s_ in exp.schedules]))
        res3, _ = try_accept(E, lambda: setattr(cp, "schedules", [list(sched), list(sched)]))
        out.append(Holds("the copy's schedule setter accepts what the original accepted", res3 == "accept"))
        return out
    inputs = [(f"k{j}", "int", 0, 1) for j in range(1, L)] + [(f"i{j}", "int", None, None) for j in range(L)]
    return FnOb(inputs, run, max_paths=80000, explore_budget=300, tv_points=3)


MALFORMED = {
    "arity1": lambda i: ("state",), "arity3": lambda i: ("state", i, 0), "list_item": lambda i: ["state", i],
    "float_index": lambda i: ("state", 0.0), "bool_index": lambda i: ("state", True), "none_index": lambda i: ("state", None),
    "int_name": lambda i: (0, i), "str_item": lambda i: "state", "none_item": lambda i: None, "upper_kind": lambda i: ("State", i),
    "numpy_int_index": lambda i: ("state", np.int64(0)),
}


def ob_exp_malformed(which, L, p):
    """a malformed item at position p of an otherwise valid schedule is always rejected with the item error"""
    sz = dict(state=1, povm=1, gate=1, mprocess=1)

    def run(I):
        import quara.qcircuit.experiment as E
        base = [("state", 0)] + [("gate", 0)] * (L - 2) + [("povm", 0)]
        sched = list(base)
        sched[p] = MALFORMED[which](I["i"])
        res, _ = try_accept(E, lambda: make_exp(E, [sched], sz))
        return [Holds("malformed item rejected with QuaraScheduleItemError", res == "item")]
    return FnOb([("i", "int", None, None)], run, max_paths=200)


def ob_exp_setter(which, L, newsize):
    """replace one object list of a valid experiment: accepted exactly when every schedule item stays in range;
    on rejection (item error) the old list is kept"""
    base = dict(state=2, povm=2, gate=2, mprocess=2)

    def kinds_for():
        # a fixed well-formed kind pattern using every list
        if L == 2:
            return ["state", "mprocess"] if which == "mprocess" else ["state", "povm"]
        if L == 3:
            return ["state", "gate" if which != "mprocess" else "mprocess", "povm"]
        return ["state", "gate", "mprocess", "povm"][:L - 1] + ["povm"] if L <= 4 else None

    def run(I):
        import quara.qcircuit.experiment as E
        kinds = kinds_for()
        idx = [I[f"i{j}"] for j in range(L)]
        sched = [(k, i) for k, i in zip(kinds, idx)]
        exp = make_exp(E, [sched], base)      # valid by assumption
        old = getattr(exp, which + ("es" if which == "mprocess" else "s"))
        new = [None] * newsize
        attr = which + ("es" if which == "mprocess" else "s")
        res, _ = try_accept(E, lambda: setattr(exp, attr, new))
        sz2 = dict(base)
        sz2[which] = newsize
        ok = spec_accepts(kinds, idx, sz2)
        out = [Holds("setter accepts <=> schedules stay well-formed", iff(res == "accept", ok))]
        cur = getattr(exp, attr)
        out.append(Holds("list replaced iff accepted", (cur is new) if res == "accept" else (cur is old)))
        return out

    def assume(I):
        kinds = kinds_for()
        return [in_range(I[f"i{j}"], 0, base[k]) for j, k in enumerate(kinds)]
    return FnOb([(f"i{j}", "int", None, None) for j in range(L)], run, assume=assume, max_paths=500)


def ob_exp_list_then_sched(which, newsize, L):
    """history of two setter calls: first one object list is replaced (by a list of another length), then the schedules are assigned:
    the new schedules are judged against the CURRENT lists (accept <=> well-formed for the new sizes), for every index value"""
    base = dict(state=2, povm=2, gate=2, mprocess=2)

    def run(I):
        import quara.qcircuit.experiment as E
        kinds = [KINDS[int(I[f"k{j}"])] for j in range(L)]
        idx = [I[f"i{j}"] for j in range(L)]
        exp = make_exp(E, [[("state", 0), ("povm", 0)]], base)
        attr = which + ("es" if which == "mprocess" else "s")
        res0, _ = try_accept(E, lambda: setattr(exp, attr, [None] * newsize))
        if res0 != "accept":
            raise core.Outside("replacing the list itself was rejected (the fixed schedule uses index 0 of a now empty list)")
        sz2 = dict(base)
        sz2[which] = newsize
        new = [[(k, i) for k, i in zip(kinds, idx)]]
        res, _ = try_accept(E, lambda: setattr(exp, "schedules", new))
        ok = spec_accepts(kinds, idx, sz2)
        return [Holds("after a list was replaced: schedules setter accepts <=> well-formed for the CURRENT list sizes", iff(res == "accept", ok))]
    return FnOb([(f"k{j}", "int", 0, len(KINDS) - 1) for j in range(L)] + [(f"i{j}", "int", None, None) for j in range(L)], run, max_paths=3000)


def ob_exp_sched_setter(L, sizes):
    """schedules setter re-validates like the constructor and keeps the old schedules on rejection"""
    sz = dict(zip(LISTS, sizes))

    def run(I):
        import quara.qcircuit.experiment as E
        kinds = [KINDS[int(I[f"k{j}"])] for j in range(L)]
        idx = [I[f"i{j}"] for j in range(L)]
        good = [[("state", 0), ("povm", 0)]]
        exp = make_exp(E, good, sz)
        new = [[(k, i) for k, i in zip(kinds, idx)]]
        res, _ = try_accept(E, lambda: setattr(exp, "schedules", new))
        ok = spec_accepts(kinds, idx, sz)
        return [Holds("schedules setter accepts <=> well-formed", iff(res == "accept", ok)),
                Holds("schedules replaced iff accepted", (exp.schedules is new) if res == "accept" else (exp.schedules is good))]
    inputs = [(f"k{j}", "int", 0, 4) for j in range(L)] + [(f"i{j}", "int", None, None) for j in range(L)]
    return FnOb(inputs, run, max_paths=80000, explore_budget=600)


TOMO_SHAPE = {"qst": ["state", "povm"], "povmt": ["state", "povm"], "qpt": ["state", "gate", "povm"], "qmpt": ["state", "mprocess", "povm"]}


def ob_tomo_custom(tomo, L):
    """custom schedules of a tomography class: accepted exactly for schedules of its own shape with in-range tester
    indices and index 0 for the unknown; any exception counts as rejection"""
    import tomo_lib

    def sizes():
        sel = tomo_lib.DEFAULT[(tomo, "Q1")]
        ns = len(sel.get("states", [0]))
        npv = len(sel.get("povms", [0]))
        return dict(state=ns if tomo != "qst" else 1, povm=npv if tomo != "povmt" else 1, gate=1 if tomo == "qpt" else 0,
                    mprocess=1 if tomo == "qmpt" else 0)

    def run(I):
        kinds = [KINDS[int(I[f"k{j}"])] for j in range(L)]
        idx = [I[f"i{j}"] for j in range(L)]
        sched = [(k, i) for k, i in zip(kinds, idx)]
        good = [(k, 0) for k in TOMO_SHAPE[tomo]]
        try:
            qt, _ = tomo_lib.build(tomo, "Q1", m=2, flag=False, schedules=[good, sched])
            acc = True
        except Exception:
            acc = False
        sz = sizes()
        ok = s_and([kinds == TOMO_SHAPE[tomo]] + [in_range(i, 0, sz[k]) if k in sz else False for k, i in zip(kinds, idx)])
        out = [Holds("tomography accepts <=> schedule of its own shape", iff(acc, ok))]
        if acc:
            out.append(Holds("num_schedules", qt.num_schedules == 2))
        return out
    inputs = [(f"k{j}", "int", 0, 4) for j in range(L)] + [(f"i{j}", "int", None, None) for j in range(L)]
    return FnOb(inputs, run, max_paths=80000, explore_budget=900, tv_points=2)


def ob_tomo_all(tomo, sysname):
    """'all' expands to every tester combination once, in the documented order; other strings are rejected"""
    import tomo_lib

    def run(I):
        qt, _ = tomo_lib.build(tomo, sysname, m=2, flag=False, schedules="all")
        sel = tomo_lib.DEFAULT[(tomo, sysname)]
        if tomo == "qst":
            exp = [[("state", 0), ("povm", j)] for j in range(len(sel["povms"]))]
        elif tomo == "povmt":
            exp = [[("state", i), ("povm", 0)] for i in range(len(sel["states"]))]
        else:
            mid = "gate" if tomo == "qpt" else "mprocess"
            exp = [[("state", i), (mid, 0), ("povm", j)] for i in range(len(sel["states"])) for j in range(len(sel["povms"]))]
        out = [Holds("'all' expansion", qt._experiment.schedules == exp)]
        for bad in ("ALL", "", "al", "all "):
            try:
                tomo_lib.build(tomo, sysname, m=2, flag=False, schedules=bad)
                rej = False
            except Exception:
                rej = True
            out.append(Holds(f"schedule string {bad!r} rejected", rej))
        return out
    return FnOb([], run, tv_points=0)


def ob_exec(sysname, j):
    """an accepted schedule ending in its only POVM can be executed and yields a normalised, non-negative distribution of the
    POVM's length (true state symbolic on the segment between two physical states); None placeholders are rejected"""
    import tomo_lib

    def run(I):
        import quara.qcircuit.experiment as E
        t = I["t"]
        c = qenv.csys(sysname)
        sts = tomo_lib.states(sysname)
        pvs = tomo_lib.povms(sysname)
        v = sts[0].vec * t + sts[4 if sysname == "Q1" else 3].vec * (1 - t)
        st = mk_state(c, v)
        exp = E.Experiment(schedules=[[("state", 0), ("povm", j)], [("state", 1), ("povm", j)]], states=[st, None], povms=pvs)
        out = []
        ps = exp.calc_prob_dist(0)
        s = 0
        for x in flat(ps):
            s = s + x
        out.append(Holds("normalised", SBool.of(s <= 1 + 1e-9) & SBool.of(s >= 1 - 1e-9)))
        out.append(Holds("non-negative", s_and([SBool.of(x >= 0) for x in flat(ps)])))
        out.append(Holds("length", len(flat(ps)) == pvs[j].num_outcomes))
        try:
            exp.calc_prob_dist(1)
            rej = False
        except ValueError:
            rej = True
        out.append(Holds("None placeholder rejected at execution", rej))
        return out
    return FnOb([("t", "real", 0.0, 1.0)], run, max_paths=200, expect_nonlinear=True, explore_budget=60)


def ob_exec_long(sysname, kinds):
    """an accepted schedule with several intermediate operations is executed in schedule order: [state, op1, op2, (povm)] gives the
    statistics of op2 o op1 on the state (non-commuting operations), for a symbolic input state"""
    import tomo_lib, objlib

    def run(I):
        import quara.qcircuit.experiment as E
        t = I["t"]
        c = qenv.csys(sysname)
        sts = tomo_lib.states(sysname)
        v = sts[0].vec * t + sts[4].vec * (1 - t)
        st = mk_state(c, v)
        gk = objlib.gate_kraus(sysname)
        gs = objlib.gates(sysname)
        names = ["rx", "ampdamp"]                      # Rx then amplitude damping: they do not commute
        pv_mats = tomo_lib.povm_mats(sysname)[5]
        pv = tomo_lib.povms(sysname)[5]
        sched = [("state", 0)] + [("gate", i) for i in range(len(kinds))] + [("povm", 0)]
        exp = E.Experiment(schedules=[sched], states=[st], gates=[gs[n] for n in names[:len(kinds)]], povms=[pv])
        ps = exp.calc_prob_dist(0)
        rho = refs.ref_matrix(v, basis_of(sysname))
        for n in names[:len(kinds)]:
            rho = objlib.apply_kraus(gk[n], rho)
        ref = [refs.tr(refs.mm(np.asarray(Ex, dtype=object), rho)) for Ex in pv_mats]
        ref = [Sym.of(r).re_sym() if isinstance(r, Sym) else np.real(r) for r in ref]
        return [Eq("probabilities == Tr(E_x G_k ... G_1 rho) in schedule order", ps, np.array(ref, dtype=object), 1e-8)]
    return FnOb([("t", "real", 0.0, 1.0)], run, max_paths=200, expect_nonlinear=True, explore_budget=120)


OA9 = [(0, 0, 0, 0), (0, 1, 1, 1), (0, 2, 2, 2), (1, 0, 1, 2), (1, 1, 2, 0), (1, 2, 0, 1), (2, 0, 2, 1), (2, 1, 0, 2), (2, 2, 1, 0)]


def obligations(tier):
    out = []
    allsizes = list(itertools.product(range(3), repeat=4))
    for L in tiers(tier, [0, 1, 2, 3], [0, 1, 2, 3, 4]):
        szs = OA9 + [(1, 1, 1, 1), (2, 1, 0, 1)] if (tier == "quick" or L >= 4) else allsizes
        for s in szs:
            for pos in (["alone"] if L != 2 else ["alone", "after", "before"]):
                out += specs("C20.exp.ctor", [{"L": L, "sizes": list(s), "pos": pos}], ob_exp_ctor, 1 + L * L)
    out += specs("C20.exp.copy", [{"L": L, "sizes": sz} for L, sz in tiers(tier, [(3, [1, 2, 2, 2])], [(3, [1, 2, 2, 2]), (4, [1, 2, 2, 2]), (4, [2, 1, 0, 3])])], ob_exp_copy, 10)
    if tier == "thorough":
        out += specs("C20.exp.ctor", [{"L": 5, "sizes": [1, 1, 1, 1], "pos": "alone"}, {"L": 5, "sizes": [2, 1, 0, 1], "pos": "alone"}], ob_exp_ctor, 40)
    for w in MALFORMED:
        for L, p in tiers(tier, [(2, 0), (2, 1), (3, 1)], [(2, 0), (2, 1), (3, 0), (3, 1), (3, 2), (4, 2)]):
            out += specs("C20.exp.malformed", [{"which": w, "L": L, "p": p}], ob_exp_malformed, 0.5)
    for which in LISTS:
        for L in tiers(tier, [2, 3], [2, 3, 4]):
            for ns in (0, 1, 2, 3):
                out += specs("C20.exp.setter", [{"which": which, "L": L, "newsize": ns}], ob_exp_setter, 1)
    for which in LISTS:
        for ns in (1, 3):
            for L in tiers(tier, [2], [2, 3]):
                out += specs("C20.exp.list_then_schedules", [{"which": which, "newsize": ns, "L": L}], ob_exp_list_then_sched, 2)
    for L in tiers(tier, [2, 3], [1, 2, 3, 4]):
        for s in ([(1, 1, 1, 1), (2, 1, 0, 1)] if tier == "quick" else OA9[1:] + [(1, 1, 1, 1)]):
            if s[0] == 0 or s[1] == 0:
                continue
            out += specs("C20.exp.schedules_setter", [{"L": L, "sizes": list(s)}], ob_exp_sched_setter, 1 + L * L)
    for tomo in TOMO_SHAPE:
        for L in tiers(tier, [2, 3] + ([4] if tomo in ("qmpt", "qpt") else []), [2, 3, 4, 5]):
            out += specs("C20.tomo.custom", [{"tomo": tomo, "L": L}], ob_tomo_custom, 10 * L)
        out += specs("C20.tomo.all", [{"tomo": tomo, "sysname": "Q1"}], ob_tomo_all, 2)
    out += specs("C20.exec", [{"sysname": "Q1", "j": j} for j in range(6)], ob_exec, 3)
    out += specs("C20.exec.long", [{"sysname": "Q1", "kinds": ["gate", "gate"]}, {"sysname": "Q1", "kinds": ["gate"]}], ob_exec_long, 3)
    return out


if __name__ == "__main__":
    sys.exit(main("C20", "c20"))
