#!/usr/bin/env python
"""C18 -- Lindbladian generators decompose and recompose correctly (GKSL action, extract/rebuild, parts, verdicts, projections)."""
from common import *
from symq import stubs
import c02

BOX = 10.0


def tiers(tier, quick, thorough):
    return quick if tier == "quick" else thorough


def herm_inputs(prefix, d, lo=-BOX, hi=BOX):
    return c02._herm_inputs(prefix, d, lo, hi)


def herm(I, prefix, d):
    return c02._herm(I, prefix, d)


def comm(a, b):
    return np.asarray(refs.mm(a, b), dtype=object) - np.asarray(refs.mm(b, a), dtype=object)


def acomm(a, b):
    return np.asarray(refs.mm(a, b), dtype=object) + np.asarray(refs.mm(b, a), dtype=object)


def gksl_hk(H, K, B, rho):
    """-i[H,rho] + sum_ab K_ab (B_a rho B_b^† - 1/2 {B_b^† B_a, rho}),  a,b >= 1"""
    n = len(B)
    out = comm(H, rho) * (-1j) if H is not None else np.zeros(rho.shape, dtype=object)
    if K is not None:
        for a in range(1, n):
            for b in range(1, n):
                k = K[a - 1, b - 1]
                if not isinstance(k, Sym) and k == 0:
                    continue
                Bb = B[b].conj().T
                term = np.asarray(refs.mm(refs.mm(B[a], rho), Bb), dtype=object) - acomm(Bb @ B[a], rho) * 0.5
                out = out + term * k
    return np.asarray(out, dtype=object).view(SymNd)


def hs_columns_ref(action, B, sysname):
    """HS matrix of a linear map from its action on the basis: column b = vec(action(B_b))"""
    n = len(B)
    cols = []
    for b in range(n):
        M = action(np.asarray(B[b], dtype=object))
        cols.append(refs.ref_vec(M, B))
    out = np.empty((n, n), dtype=object)
    for b in range(n):
        for a in range(n):
            out[a, b] = cols[b][a]
    return out.view(SymNd)


def j_from_k(K, B):
    n = len(B)
    d = B[0].shape[0]
    J = np.zeros((d, d), dtype=object)
    for a in range(1, n):
        for b in range(1, n):
            J = J + (B[b].conj().T @ B[a]).astype(object) * K[a - 1, b - 1] * (-0.5)
    return J.view(SymNd)


def ob_build(sysname, how):
    """generate_effective_lindbladian_from_{hk,hjk,h,k}: the generator acts on every basis element as the GKSL right-hand side"""
    d = DIMS[sysname]
    n = d * d
    B = basis_of(sysname)

    def run(I):
        import quara.objects.effective_lindbladian as EL
        c = qenv.csys(sysname)
        H = herm(I, "h", d) if "h" in how else None
        K = herm(I, "k", n - 1) if "k" in how else None
        if how == "hk":
            L = EL.generate_effective_lindbladian_from_hk(c, H, K, is_physicality_required=False)
        elif how == "h":
            L = EL.generate_effective_lindbladian_from_h(c, H, is_physicality_required=False)
        elif how == "k":
            L = EL.generate_effective_lindbladian_from_k(c, K, is_physicality_required=False)
        else:
            J = j_from_k(K, B)
            L = EL.generate_effective_lindbladian_from_hjk(c, H, J, K, is_physicality_required=False)
        ref = hs_columns_ref(lambda rho: gksl_hk(H, K, B, rho), B, sysname)
        out = [Eq("generator == GKSL right-hand side on every basis element", L.hs, ref.real, 1e-7),
               Eq("reference has no imaginary part (Hermiticity preserving)", ref.imag, np.zeros((n, n)), 1e-7)]
        # the same matrices handed over in column-major memory layout
        if how == "hk":
            L2 = EL.generate_effective_lindbladian_from_hk(c, fortran_view(H), fortran_view(K), is_physicality_required=False)
        elif how == "h":
            L2 = EL.generate_effective_lindbladian_from_h(c, fortran_view(H), is_physicality_required=False)
        elif how == "k":
            L2 = EL.generate_effective_lindbladian_from_k(c, fortran_view(K), is_physicality_required=False)
        else:
            L2 = EL.generate_effective_lindbladian_from_hjk(c, fortran_view(H), fortran_view(J), fortran_view(K), is_physicality_required=False)
        out.append(Eq("column-major inputs: the same generator", L2.hs, L.hs, 1e-9))
        return out
    inp = (herm_inputs("h", d) if "h" in how else []) + (herm_inputs("k", n - 1) if "k" in how else [])
    return FnOb(inp, run, max_paths=20)


def ob_extract(sysname):
    """extracting H, J, K from a generator built from (H, K) gives back the traceless part of H, J(K) = -1/2 sum K_ab B_b^† B_a and K;
    rebuilding from the extracted matrices reproduces the generator; parts sum to the whole in both bases"""
    d = DIMS[sysname]
    n = d * d
    B = basis_of(sysname)

    def run(I):
        import quara.objects.effective_lindbladian as EL
        c = qenv.csys(sysname)
        H = herm(I, "h", d)
        K = herm(I, "k", n - 1)
        L = EL.generate_effective_lindbladian_from_hk(c, H, K, is_physicality_required=False)
        trH = refs.tr(H)
        Ht = np.asarray(H, dtype=object) - np.eye(d) * (trH / d)
        out = [Eq("calc_h_mat == H - Tr(H)/d I", L.calc_h_mat(), Ht, 1e-7),
               Eq("calc_k_mat == K", L.calc_k_mat(), K, 1e-7),
               Eq("calc_j_mat == -1/2 sum K_ab B_b† B_a", L.calc_j_mat(), j_from_k(K, B), 1e-7)]
        L2 = EL.generate_effective_lindbladian_from_hjk(c, L.calc_h_mat(), L.calc_j_mat(), L.calc_k_mat(), is_physicality_required=False)
        out.append(Eq("rebuild from extracted (H,J,K) == generator", L2.hs, L.hs, 1e-7))
        parts_h = L.calc_h_part() + L.calc_j_part() + L.calc_k_part()
        out.append(Eq("h_part + j_part + k_part == generator (Hermitian basis)", parts_h, L.hs, 1e-7))
        out.append(Eq("j_part + k_part == d_part (Hermitian basis)", L.calc_j_part() + L.calc_k_part(), L.calc_d_part(), 1e-7))
        from quara.objects.gate import convert_hs
        cb = convert_hs(L.hs, c.basis(), c.comp_basis())
        parts_c = L.calc_h_part("comp_basis") + L.calc_j_part("comp_basis") + L.calc_k_part("comp_basis")
        out.append(Eq("parts sum to the whole (computational basis)", parts_c, cb, 1e-7))
        # the SAME object asked for every part in the other basis mode afterwards, and back: the mode argument decides, not the first call
        out.append(Eq("d_part (computational basis, after the Hermitian-basis call) == j_part + k_part in that basis",
                      L.calc_d_part("comp_basis"), L.calc_j_part("comp_basis") + L.calc_k_part("comp_basis"), 1e-7))
        out.append(Eq("d_part (Hermitian basis again) unchanged", L.calc_d_part(), L.calc_j_part() + L.calc_k_part(), 1e-7))
        out.append(Eq("h_part (Hermitian basis again) + d_part == generator", L.calc_h_part() + L.calc_d_part(), L.hs, 1e-7))
        return out
    return FnOb(herm_inputs("h", d) + herm_inputs("k", n - 1), run, max_paths=20)


def ob_extract_h(sysname):
    """Hamiltonian-only generator: calc_h_mat gives back the traceless part of H, J and K vanish, the h part is the whole"""
    d = DIMS[sysname]
    n = d * d

    def run(I):
        import quara.objects.effective_lindbladian as EL
        c = qenv.csys(sysname)
        H = herm(I, "h", d)
        L = EL.generate_effective_lindbladian_from_h(c, H, is_physicality_required=False)
        Ht = np.asarray(H, dtype=object) - np.eye(d) * (refs.tr(H) / d)
        return [Eq("calc_h_mat == H - Tr(H)/d I", L.calc_h_mat(), Ht, 1e-7),
                Eq("calc_k_mat == 0", L.calc_k_mat(), np.zeros((n - 1, n - 1)), 1e-7),
                Eq("calc_j_mat == 0", L.calc_j_mat(), np.zeros((d, d)), 1e-7),
                Eq("h part == generator", L.calc_h_part(), L.hs, 1e-7)]
    return FnOb(herm_inputs("h", d), run, max_paths=20)


def ob_fast_slow(sysname):
    """sparse-table implementations == slow reference loops (J from K, K part)"""
    d = DIMS[sysname]
    n = d * d

    def run(I):
        import quara.objects.effective_lindbladian as EL
        c = qenv.csys(sysname)
        K = herm(I, "k", n - 1)
        return [Eq("_calc_j_mat_from_k_mat fast == slow", EL._calc_j_mat_from_k_mat_with_sparsity(K, c), EL._calc_j_mat_from_k_mat_slowly(K, c), 1e-8),
                Eq("_calc_k_part fast == slow", EL._calc_k_part_from_k_mat_with_sparsity(K, c), EL._calc_k_part_from_slowly(K, c), 1e-8)]
    return FnOb(herm_inputs("k", n - 1), run)


def ob_jump(sysname, nj):
    """generator from jump operators c_k (symbolic complex matrices): action on every basis element == sum_k c B c† - 1/2 {c†c, B}"""
    d = DIMS[sysname]
    n = d * d
    B = basis_of(sysname)

    def run(I):
        import quara.objects.effective_lindbladian as EL
        c = qenv.csys(sysname)
        cs = [cvec_of(I, f"c{k}_", d * d).reshape(d, d) for k in range(nj)]
        L = EL.generate_effective_lindbladian_from_jump_operators(c, cs, is_physicality_required=False, eps_truncate_imaginary_part=1e-9)

        def action(rho):
            out = np.zeros(rho.shape, dtype=object)
            for ck in cs:
                cd = refs.dag(ck)
                out = out + np.asarray(refs.mm(refs.mm(ck, rho), cd), dtype=object) - acomm(refs.mm(cd, ck), rho) * 0.5
            return np.asarray(out, dtype=object).view(SymNd)
        ref = hs_columns_ref(action, B, sysname)
        return [Eq("generator from jump operators == GKSL dissipator on every basis element", L.hs, ref.real, 1e-7)]
    inp = []
    for k in range(nj):
        inp += creals(f"c{k}_", d * d, -2.0, 2.0)
    return FnOb(inp, run, max_paths=40, expect_nonlinear=True)


def ob_verdict_tp(sysname):
    d = DIMS[sysname]
    n = d * d

    def run(I):
        import quara.objects.effective_lindbladian as EL
        c = qenv.csys(sysname)
        hs = mat_of(I, "l", n, n)
        L = EL.EffectiveLindbladian(c, hs, is_physicality_required=False)
        atol = I["atol"]
        ver = SBool.of(L.is_tp(atol))
        spec = s_and([SBool.of(hs[0, j] <= atol) & SBool.of(hs[0, j] >= -atol) for j in range(n)])
        P = L.calc_proj_eq_constraint()
        exp = np.asarray(hs, dtype=object).copy()
        exp[0, :] = 0.0
        return [Holds("is_tp <=> first row vanishes within atol", iff(ver, spec)),
                Eq("equality projection zeroes exactly the first row", P.hs, exp, 0.0),
                Eq("operand unchanged", L.hs, hs, 0.0)]
    return FnOb(reals("l", n * n, -BOX, BOX) + [("atol", "real", 1e-13, 1e-2)], run, max_paths=20)


def ob_verdict_cp(sysname, vname):
    """is_cp <=> dissipator matrix K positive semidefinite within atol (K given by its spectral decomposition)"""
    d = DIMS[sysname]
    n = d * d
    V = dict(refs.unitary_library(n - 1))[vname]

    def run(I):
        import quara.objects.effective_lindbladian as EL
        c = qenv.csys(sysname)
        H = herm(I, "h", d)
        w = [I[f"w{i}"] for i in range(n - 1)]
        K = stubs.spectral(w, V, "K")
        L = EL.generate_effective_lindbladian_from_hk(c, H, K, is_physicality_required=False)
        atol = I["atol"]
        ver = SBool.of(L.is_cp(atol))
        spec = s_and([SBool.of(x >= -atol) for x in w])
        return [Holds("is_cp <=> min eigenvalue of K >= -atol", iff(ver, spec))]
    return FnOb(herm_inputs("h", d) + [(f"w{i}", "real", -BOX, BOX) for i in range(n - 1)] + [("atol", "real", 1e-13, 1e-2)], run,
                assume=lambda I: stubs.ascending([I[f"w{i}"] for i in range(n - 1)]), max_paths=300,
                stubs=["np.linalg.eigvalsh: spectral parametrisation of K, frame " + vname])


def ob_proj_ineq(sysname, vname):
    """inequality projection: K is replaced by its positive part, H and J kept: result == generator built from (H, J(K), V max(w,0) V†);
    a generator with K >= 0 is left unchanged"""
    d = DIMS[sysname]
    n = d * d
    B = basis_of(sysname)
    V = dict(refs.unitary_library(n - 1))[vname]

    def run(I):
        import quara.objects.effective_lindbladian as EL
        c = qenv.csys(sysname)
        H = herm(I, "h", d)
        w = [I[f"w{i}"] for i in range(n - 1)]
        K = stubs.spectral(w, V, "K")
        L = EL.generate_effective_lindbladian_from_hk(c, H, K, is_physicality_required=False)
        P = L.calc_proj_ineq_constraint()
        Kp = stubs.spectral([core.smax(x, 0.0) for x in w], V, "Kplus")
        J = j_from_k(K, B)
        ref = hs_columns_ref(lambda rho: np.asarray(gksl_hk(H, None, B, rho), dtype=object) + acomm(J, rho)
                             + np.asarray(gksl_dissipative_no_j(Kp, B, rho), dtype=object), B, sysname)
        allpos = s_and([SBool.of(x >= 0) for x in w])
        out = [Eq("projection == build(H, J, K+)", P.hs, ref.real, 1e-6)]
        if bool(allpos):        # the routine has already split on the signs of the eigenvalues: no new paths
            out.append(Eq("K >= 0 => unchanged", P.hs, L.hs, 1e-6))
        return out
    return FnOb(herm_inputs("h", d) + [(f"w{i}", "real", -BOX, BOX) for i in range(n - 1)], run,
                assume=lambda I: stubs.ascending([I[f"w{i}"] for i in range(n - 1)]), max_paths=300, eager_ite=True, solver_timeout_ms=40000,
                # concrete spectra with a repeated eigenvalue, tried when a model of a degenerate path is replayed: whether LAPACK's general
                # eigen-solver returns a non-orthogonal basis of the eigenspace depends on the data, not on anything the solver can see
                replay_variants=[{}] + [{f"w{i}": v for i, v in enumerate(ws)} for ws in ([-0.3, 0.7, 0.7], [-1.0, 0.5, 0.5], [0.3, 0.3, 0.9], [-0.4, -0.4, 0.8])] if n - 1 == 3 else None,
                stubs=["np.linalg.eig / eigh: spectral parametrisation of K, frame " + vname + " (eig: eigenvectors of a repeated eigenvalue need not be orthogonal)"],
                outside=["eig's eigenvector choice for repeated eigenvalues"])


def gksl_dissipative_no_j(K, B, rho):
    n = len(B)
    out = np.zeros(rho.shape, dtype=object)
    for a in range(1, n):
        for b in range(1, n):
            out = out + np.asarray(refs.mm(refs.mm(B[a], rho), B[b].conj().T), dtype=object) * K[a - 1, b - 1]
    return out


def ob_var(sysname, flag):
    """variables <-> generator: with the equality constraint built in the implied first row is ZERO (trace preservation of a generator)"""
    d = DIMS[sysname]
    n = d * d
    nv = n * n - n if flag else n * n

    def run(I):
        import quara.objects.effective_lindbladian as EL
        c = qenv.csys(sysname)
        v = vec_of(I, "v", nv)
        L = EL.convert_var_to_effective_lindbladian(c, v, is_physicality_required=False, on_para_eq_constraint=flag)
        out = [Eq("to_var(from_var(v)) == v", L.to_var(), v, 0.0)]
        if flag:
            out.append(Eq("implied first row is zero", L.hs[0], np.zeros(n), 0.0))
            out.append(Holds("generated object satisfies its equality constraint", SBool.of(L.is_tp(1e-12))))
        return out
    return FnOb(reals("v", nv, -BOX, BOX), run, max_paths=20)


def obligations(tier):
    out = []
    for s in tiers(tier, ["Q1"], ["Q1", "T1"]):
        for how in ("hk", "hjk", "h", "k"):
            out += specs("C18.build", [{"sysname": s, "how": how}], ob_build, 4 if s == "Q1" else 40)
        if s == "Q1":       # the qutrit extraction round trip does not finish (20 min, unknown): outside
            out += specs("C18.extract", [{"sysname": s}], ob_extract, 5)
        out += specs("C18.fast_slow", [{"sysname": s}], ob_fast_slow, 2)
        out += specs("C18.verdict.tp", [{"sysname": s}], ob_verdict_tp, 2)
        for flag in (True, False):
            out += specs("C18.var", [{"sysname": s, "flag": flag}], ob_var, 1)
    out += specs("C18.fast_slow", [{"sysname": "Q2"}], ob_fast_slow, 20)
    out += specs("C18.extract.h", [{"sysname": s} for s in ("Q1", "T1", "Q2")], ob_extract_h, 8)
    out += specs("C18.jump", [{"sysname": "Q1", "nj": k} for k in tiers(tier, [1, 2], [1, 2, 3, 4])] + tiers(tier, [], [{"sysname": "T1", "nj": 1}]), ob_jump, 6)
    names3 = [nm for nm, _ in refs.unitary_library(3)]
    for vn in tiers(tier, names3[-1:], names3):
        out += specs("C18.verdict.cp", [{"sysname": "Q1", "vname": vn}], ob_verdict_cp, 4)
    # quick: the diagonal frame and the complex frame (K with imaginary off-diagonal entries); thorough: all frames
    for vn in tiers(tier, ["id", "cplx+1"], names3):
        out += specs("C18.proj.ineq", [{"sysname": "Q1", "vname": vn}], ob_proj_ineq, 6)
    return out


if __name__ == "__main__":
    sys.exit(main("C18", "c18"))
