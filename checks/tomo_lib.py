"""concrete tester libraries (physical states / POVMs written from textbook formulas, not from quara's
catalogues) and builders for the four standard tomography classes"""
import numpy as np
from common import *

_S2 = np.sqrt(2.0)


def ket(*amps):
    v = np.array(amps, dtype=complex)
    return v / np.linalg.norm(v)


def proj(v):
    v = np.asarray(v, dtype=complex)
    return np.outer(v, v.conj())


def dm_to_vec(M, sysname):
    B = basis_of(sysname)
    v = np.array([np.trace(b.conj().T @ M) for b in B])
    assert np.max(np.abs(v.imag)) < 1e-12
    return np.ascontiguousarray(v.real.astype(np.float64))


# ---- density matrices -----------------------------------------------------------------------------
def state_mats(sysname):
    if sysname == "Q1":
        z0, z1 = ket(1, 0), ket(0, 1)
        x0, y0 = ket(1, 1), ket(1, 1j)
        mixed = 0.6 * proj(ket(1, 0.5 + 0.3j)) + 0.4 * proj(ket(0.2, 1))
        return [proj(z0), proj(z1), proj(x0), proj(y0), mixed]
    if sysname == "T1":
        e = np.eye(3)
        ks = [e[0], e[1], e[2], ket(1, 1, 0), ket(1, 1j, 0), ket(1, 0, 1), ket(1, 0, 1j), ket(0, 1, 1), ket(0, 1, 1j)]
        return [proj(k) for k in ks]
    if sysname == "Q2":
        one = state_mats("Q1")[:4]
        return [np.kron(a, b) for a in one for b in one]
    raise KeyError(sysname)


def povm_mats(sysname):
    """list of POVMs (each a list of matrices) with mixed outcome counts, jointly informationally complete"""
    if sysname == "Q1":
        x0, x1 = proj(ket(1, 1)), proj(ket(1, -1))
        y0, y1 = proj(ket(1, 1j)), proj(ket(1, -1j))
        z0, z1 = proj(ket(1, 0)), proj(ket(0, 1))
        trine = [2 / 3 * proj(ket(np.cos(t / 2), np.sin(t / 2))) for t in (0, 2 * np.pi / 3, 4 * np.pi / 3)]
        # tetrahedron (SIC) POVM, 4 outcomes
        a = 1 / np.sqrt(3)
        dirs = [(a, a, a), (a, -a, -a), (-a, a, -a), (-a, -a, a)]
        I, X, Y, Z = np.eye(2), np.array([[0, 1], [1, 0]]), np.array([[0, -1j], [1j, 0]]), np.array([[1, 0], [0, -1]])
        sic = [(I + d[0] * X + d[1] * Y + d[2] * Z) / 4 for d in dirs]
        noisy_z = [0.9 * z0 + 0.1 * z1 + 0.05j * (np.array([[0, 1], [-1, 0]])), None]
        noisy_z[1] = np.eye(2) - noisy_z[0]
        unbal = [np.diag([0.8, 0.1]).astype(complex), np.diag([0.2, 0.9]).astype(complex)]     # elements of unequal trace
        # three 3-outcome POVMs (one per axis) whose elements have unequal traces 0.5, 0.3, 1.2: outcome count != dimension
        uneven3 = [[0.5 * a0, 0.3 * a1, np.eye(2) - 0.5 * a0 - 0.3 * a1] for a0, a1 in ((x0, x1), (y0, y1), (z0, z1))]
        return [[x0, x1], [y0, y1], [z0, z1], trine, sic, noisy_z, unbal] + uneven3
    if sysname == "T1":
        out = []
        for P in state_mats("T1"):
            out.append([0.8 * P, np.eye(3) - 0.8 * P])
        e = np.eye(3)
        out.append([proj(e[0]), proj(e[1]), proj(e[2])])
        return out
    if sysname == "Q2":
        one = povm_mats("Q1")[:3]
        out = []
        for A in one:
            for Bm in one:
                out.append([np.kron(a, b) for a in A for b in Bm])
        return out
    raise KeyError(sysname)


_CACHE = {}


def states(sysname, idx=None):
    key = ("s", sysname)
    if key not in _CACHE:
        c = qenv.csys(sysname)
        _CACHE[key] = [mk_state(c, dm_to_vec(M, sysname), is_physicality_required=False) for M in state_mats(sysname)]
    lst = _CACHE[key]
    return lst if idx is None else [lst[i] for i in idx]


def povms(sysname, idx=None):
    key = ("p", sysname)
    if key not in _CACHE:
        c = qenv.csys(sysname)
        _CACHE[key] = [mk_povm(c, [dm_to_vec(E, sysname) for E in P], is_physicality_required=False) for P in povm_mats(sysname)]
    lst = _CACHE[key]
    return lst if idx is None else [lst[i] for i in idx]


# default tester selections: informationally complete, mixed outcome counts where the class supports it
DEFAULT = {
    ("qst", "Q1"): dict(povms=[0, 1, 2]), ("qst", "T1"): dict(povms=list(range(9))), ("qst", "Q2"): dict(povms=list(range(9))),
    ("povmt", "Q1"): dict(states=[0, 1, 2, 3]), ("povmt", "T1"): dict(states=list(range(9))), ("povmt", "Q2"): dict(states=list(range(16))),
    ("qpt", "Q1"): dict(states=[0, 1, 2, 3], povms=[0, 1, 2]), ("qpt", "T1"): dict(states=list(range(9)), povms=list(range(9))),
    ("qpt", "Q2"): dict(states=list(range(16)), povms=list(range(9))),
    ("qmpt", "Q1"): dict(states=[0, 1, 2, 3], povms=[0, 1, 2]), ("qmpt", "T1"): dict(states=list(range(9)), povms=list(range(9))),
}
# mixed outcome counts (2,2,3,4) and an over-complete set
MIXED = {
    ("qst", "Q1"): dict(povms=[0, 1, 3, 4, 6, 7]), ("qst", "T1"): dict(povms=list(range(10))),
    ("qpt", "Q1"): dict(states=[0, 1, 2, 3, 4], povms=[0, 6, 2, 3, 8]),
    ("povmt", "Q1"): dict(states=[0, 1, 2, 3, 4]),
    ("qmpt", "Q1"): dict(states=[0, 1, 2, 3], povms=[0, 6, 3, 9]),
}


def build(tomo, sysname, m=2, flag=False, schedules="all", sel=None, **kw):
    """returns (tomography object, template qoperation)"""
    from quara.protocol.qtomography.standard.standard_qst import StandardQst
    from quara.protocol.qtomography.standard.standard_povmt import StandardPovmt
    from quara.protocol.qtomography.standard.standard_qpt import StandardQpt
    from quara.protocol.qtomography.standard.standard_qmpt import StandardQmpt
    sel = sel or DEFAULT[(tomo, sysname)]
    if tomo == "qst":
        qt = StandardQst(povms(sysname, sel["povms"]), on_para_eq_constraint=flag, schedules=schedules, **kw)
        tmpl = qt._set_qoperations.states[0]
    elif tomo == "povmt":
        qt = StandardPovmt(states(sysname, sel["states"]), num_outcomes=m, on_para_eq_constraint=flag, schedules=schedules, **kw)
        tmpl = qt._set_qoperations.povms[0]
    elif tomo == "qpt":
        qt = StandardQpt(states(sysname, sel["states"]), povms(sysname, sel["povms"]), on_para_eq_constraint=flag, schedules=schedules, **kw)
        tmpl = qt._set_qoperations.gates[0]
    else:
        qt = StandardQmpt(states(sysname, sel["states"]), povms(sysname, sel["povms"]), num_outcomes=m, on_para_eq_constraint=flag, schedules=schedules, **kw)
        tmpl = qt._set_qoperations.mprocesses[0]
    return qt, tmpl
