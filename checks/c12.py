#!/usr/bin/env python
"""C12 -- loss values, derivatives and fast paths agree."""
from common import *
import c03, c08, tomo_lib

TOMO_TYPE = c08.TOMO_TYPE


def tiers(tier, quick, thorough):
    return quick if tier == "quick" else thorough


OVER = {"v": False}


def with_testers(maker):
    """obligation maker with an optional `testers` configuration entry (tester selection of c09.uniform_sel: False = Pauli,
    "unbal2" = one 2-outcome POVM with elements of unequal trace, so that the constant part of the model differs between schedules).
    Every obligation runs in its own process, so the module-level selection is private to it."""
    def make(testers=False, **cfg):
        OVER["v"] = testers
        return maker(**cfg)
    return make


def build_qt(tomo, sysname, m, flag, over=None):
    import c09
    sel = c09.uniform_sel(tomo, sysname, OVER["v"] if over is None else over)
    qt, tmpl = tomo_lib.build(tomo, sysname, m=m, flag=flag, sel=sel)
    sched = c08.default_schedules(tomo, sel)
    return qt, tmpl, sel, sched


def sizes_of(tomo, sysname, m, sel, sched):
    pm = tomo_lib.povm_mats(sysname)
    if tomo == "qst":
        return [len(pm[sel["povms"][s[1][1]]]) for s in sched]
    if tomo == "povmt":
        return [m for s in sched]
    if tomo == "qpt":
        return [len(pm[sel["povms"][s[2][1]]]) for s in sched]
    return [m * len(pm[sel["povms"][s[2][1]]]) for s in sched]


def mk_array(xs):
    xs = list(xs)
    if any(isinstance(x, Sym) for x in xs):
        return SymNd(xs)
    return np.array(xs, dtype=np.float64)


def data_from(I, sizes, prefix="q", n=100):
    out, pos = [], 0
    for s_ in sizes:
        out.append((n, mk_array([I[f"{prefix}{pos + j}"] for j in range(s_)])))
        pos += s_
    return out


def sym_weight(I, k, size):
    """symmetric size x size weight matrix from inputs w{k}_{i}_{j} (i<=j)"""
    W = np.zeros((size, size), dtype=object)
    for i in range(size):
        for j in range(i, size):
            W[i, j] = W[j, i] = I[f"w{k}_{i}_{j}"]
    if any(isinstance(x, Sym) for x in W.reshape(-1)):
        return W.view(SymNd)
    return W.astype(np.float64)


def weight_inputs(nsched, size, lo=-2.0, hi=2.0):
    return [(f"w{k}_{i}_{j}", "real", lo, hi) for k in range(nsched) for i in range(size) for j in range(i, size)]


def make_loss(kind, qt, option, data, grad=True, hess=True):
    from quara.loss_function.weighted_probability_based_squared_error import WeightedProbabilityBasedSquaredError
    from quara.loss_function.standard_qtomography_based_weighted_probability_based_squared_error import StandardQTomographyBasedWeightedProbabilityBasedSquaredError
    from quara.loss_function.weighted_relative_entropy import WeightedRelativeEntropy
    from quara.loss_function.standard_qtomography_based_weighted_relative_entropy import StandardQTomographyBasedWeightedRelativeEntropy
    cls = {"se": WeightedProbabilityBasedSquaredError, "se_fast": StandardQTomographyBasedWeightedProbabilityBasedSquaredError,
           "re": WeightedRelativeEntropy, "re_fast": StandardQTomographyBasedWeightedRelativeEntropy}[kind]
    loss = cls()
    loss.set_from_standard_qtomography_option_data(qt, option, data, grad, hess and not kind.endswith("fast"))
    return loss


def se_option(mode=None, weights=None):
    from quara.loss_function.weighted_probability_based_squared_error import WeightedProbabilityBasedSquaredErrorOption
    return WeightedProbabilityBasedSquaredErrorOption(mode_weight=mode, weights=weights)


def re_option(mode=None, weights=None):
    from quara.loss_function.weighted_relative_entropy import WeightedRelativeEntropyOption
    return WeightedRelativeEntropyOption(mode_weight=mode, weights=weights)


def ref_se(A, b, x, data, weights):
    """sum_i (p_i - q_i)^T W_i (p_i - q_i) with p = A x + b split per schedule"""
    p = refs.mm(A, np.asarray(x, dtype=object).reshape(-1, 1)).reshape(-1) + b
    tot, pos = 0, 0
    for k, (n, q) in enumerate(data):
        s_ = len(q)
        r = [p[pos + j] - q[j] for j in range(s_)]
        W = weights[k] if weights is not None else None
        for i in range(s_):
            for j in range(s_):
                wij = (1.0 if i == j else 0.0) if W is None else W[i, j]
                if isinstance(wij, Sym) or wij != 0:
                    tot = tot + r[i] * wij * r[j]
        pos += s_
    return tot


def ob_se_taylor(tomo, sysname, m, flag, kind, wmode):
    """squared-error loss (generic / fast): value == reference weighted squared distance on the model's probabilities, and
    f(x+h) - f(x) - <grad f(x), h> - 1/2 h^T H(x) h == 0 identically in (x, h, q[, W]) (exact Taylor identity)"""
    d = DIMS[sysname]
    nv = c03.n_var(TOMO_TYPE[tomo], d, m, flag)

    def setup_sizes():
        qt, tmpl, sel, sched = build_qt(tomo, sysname, m, flag)
        return sizes_of(tomo, sysname, m, sel, sched)
    sizes = setup_sizes()
    nq = sum(sizes)

    def run(I):
        qt, tmpl, sel, sched = build_qt(tomo, sysname, m, flag)
        x = vec_of(I, "x", nv)
        h = vec_of(I, "h", nv)
        data = data_from(I, sizes)
        weights = None
        if wmode == "custom":
            weights = [sym_weight(I, k, sizes[k]) for k in range(len(sizes))]
        loss = make_loss(kind, qt, se_option("custom" if weights else "identity", weights), data)
        A, b = qt.calc_matA(), qt.calc_vecB()
        fx = loss.value(x)
        out = [Eq("value == sum_i (p_i-q_i)^T W_i (p_i-q_i)", fx, ref_se(A, b, x, data, weights), 1e-7)]
        g = loss.gradient(x)
        xh = x + h
        fxh = loss.value(xh)
        lin = 0
        for i in range(nv):
            lin = lin + g[i] * h[i]
        if kind == "se":
            H = loss.hessian(x)
            quad = 0
            for i in range(nv):
                for j in range(nv):
                    quad = quad + h[i] * H[i, j] * h[j]
            out.append(Eq("exact Taylor identity (value, gradient, Hessian consistent)", fxh - fx - lin - quad * 0.5, 0.0, 1e-6))
        else:
            # the fast variant has no Hessian: second-order remainder must equal the reference quadratic form of h
            zero_data = [(n, q * 0.0) for n, q in data]
            rem = ref_se(A, b * 0.0, h, zero_data, weights)
            out.append(Eq("f(x+h) - f(x) - <grad,h> == quadratic form of A h", fxh - fx - lin, rem, 1e-6))
        return out
    inp = reals("x", nv, -3.0, 3.0) + reals("h", nv, -3.0, 3.0) + [(f"q{i}", "real", 0.0, 1.0) for i in range(nq)]
    if wmode == "custom":
        inp += [w for k in range(len(sizes)) for w in weight_inputs(1, sizes[k])[0:0]] + \
               [(f"w{k}_{i}_{j}", "real", -2.0, 2.0) for k in range(len(sizes)) for i in range(sizes[k]) for j in range(i, sizes[k])]
    return FnOb(inp, run, expect_nonlinear=True)


def ob_se_fast_eq_generic(tomo, sysname, m, flag, wmode):
    """fast and generic squared-error losses configured with the same option / data return the same value and gradient"""
    d = DIMS[sysname]
    nv = c03.n_var(TOMO_TYPE[tomo], d, m, flag)
    qt0, _, sel0, sched0 = build_qt(tomo, sysname, m, flag)
    sizes = sizes_of(tomo, sysname, m, sel0, sched0)
    rng = np.random.RandomState(5)
    qs = [rng.dirichlet(np.ones(s_) * 2.0) for s_ in sizes]
    Ws = []
    for s_ in sizes:
        M = rng.normal(size=(s_, s_))
        Ws.append(np.ascontiguousarray((M + M.T) / 2 + np.eye(s_)))

    def run(I):
        qt, tmpl, sel, sched = build_qt(tomo, sysname, m, flag)
        x = vec_of(I, "x", nv)
        data = [(50, q.copy()) for q in qs]
        if wmode == "custom":
            opt = lambda: se_option("custom", [W.copy() for W in Ws])
        else:
            opt = lambda: se_option(wmode)
        gen = make_loss("se", qt, opt(), data)
        fast = make_loss("se_fast", qt, opt(), data)
        return [Eq("fast value == generic value", fast.value(x), gen.value(x), 1e-7),
                Eq("fast gradient == generic gradient", fast.gradient(x), gen.gradient(x), 1e-7)]
    return FnOb(reals("x", nv, -3.0, 3.0), run, expect_nonlinear=True)


def ob_se_direct(tomo, sysname, m, flag):
    """the constructor + direct-setter route (no option object): weight matrices and data given to the constructor, the model set with
    set_func_prob_dists_from_standard_qt / set_func_gradient_prob_dists_from_standard_qt: value == reference with THOSE weights,
    fast == generic (value and gradient), for every x"""
    d = DIMS[sysname]
    nv = c03.n_var(TOMO_TYPE[tomo], d, m, flag)
    qt0, _, sel0, sched0 = build_qt(tomo, sysname, m, flag)
    sizes = sizes_of(tomo, sysname, m, sel0, sched0)
    rng = np.random.RandomState(15)
    qs = [rng.dirichlet(np.ones(s_) * 2.0) for s_ in sizes]
    Ws = []
    for s_ in sizes:
        M = rng.normal(size=(s_, s_))
        Ws.append(np.ascontiguousarray((M + M.T) / 2 + 1.5 * np.eye(s_)))

    def run(I):
        from quara.loss_function.weighted_probability_based_squared_error import WeightedProbabilityBasedSquaredError as Gen
        from quara.loss_function.standard_qtomography_based_weighted_probability_based_squared_error import \
            StandardQTomographyBasedWeightedProbabilityBasedSquaredError as Fast
        qt, tmpl, sel, sched = build_qt(tomo, sysname, m, flag)
        x = vec_of(I, "x", nv)
        gen = Gen(nv, prob_dists_q=[q.copy() for q in qs], weight_matrices=[W.copy() for W in Ws])
        fast = Fast(nv, prob_dists_q=[q.copy() for q in qs], weight_matrices=[W.copy() for W in Ws])
        for L in (gen, fast):
            L.set_func_prob_dists_from_standard_qt(qt)
            L.set_func_gradient_prob_dists_from_standard_qt(qt)
        A, b = qt.calc_matA(), qt.calc_vecB()
        ref = ref_se(A, b, x, [(1, q) for q in qs], Ws)
        return [Eq("generic value == weighted squared distance with the constructor's weights", gen.value(x), ref, 1e-7),
                Eq("fast value == the same", fast.value(x), ref, 1e-7),
                Eq("fast gradient == generic gradient", fast.gradient(x), gen.gradient(x), 1e-7)]
    return FnOb(reals("x", nv, -3.0, 3.0), run, expect_nonlinear=True)


def ref_cov_weights(q, n, unbiased):
    """documented inverse-covariance weights: inverse of (cov[:-1,:-1] + I / n^(3/2)) embedded in a zero matrix, cov = (diag(q) - q q^T)/n or /(n-1),
    q regularised by replace_prob_dist's rule (entries below 1e-8 set to 1e-8, the excess spread over the others)"""
    q = np.array(q, dtype=float)
    eps = 1e-8
    cnt = int(np.sum(q < eps))
    if cnt:
        q = np.where(q < eps, eps, q - eps * cnt / (len(q) - cnt))
    cov = (np.diag(q) - np.outer(q, q)) / ((n - 1) if unbiased else n)
    k = len(q)
    W = np.zeros((k, k))
    W[:k - 1, :k - 1] = np.linalg.inv(cov[:-1, :-1] + np.eye(k - 1) / n ** 1.5)
    return W


def ob_se_mode(tomo, sysname, m, flag, kind, mode):
    """every weighting mode the option accepts takes effect: value under the mode == reference value with the documented weights,
    for every x (data concrete, incl. a zero entry)"""
    d = DIMS[sysname]
    nv = c03.n_var(TOMO_TYPE[tomo], d, m, flag)
    qt0, _, sel0, sched0 = build_qt(tomo, sysname, m, flag)
    sizes = sizes_of(tomo, sysname, m, sel0, sched0)
    rng = np.random.RandomState(11)
    qs = [rng.dirichlet(np.ones(s_) * 2.0) for s_ in sizes]
    qs[0] = np.array([1.0] + [0.0] * (sizes[0] - 1))
    n = 40

    def run(I):
        qt, tmpl, sel, sched = build_qt(tomo, sysname, m, flag)
        x = vec_of(I, "x", nv)
        ns = [n + 25 * j for j in range(len(qs))]            # shot counts differ between schedules
        data = [(nj, q.copy()) for nj, q in zip(ns, qs)]
        loss = make_loss(kind, qt, se_option(mode), data)
        A, b = qt.calc_matA(), qt.calc_vecB()
        unb = mode in ("inverse_unbiased_covariance", "unbiased_inverse_covariance")
        Wref = [ref_cov_weights(q, nj, unb) for nj, q in zip(ns, qs)]
        return [Eq(f"value under mode {mode} == reference with the documented weights", loss.value(x), ref_se(A, b, x, data, Wref), 1e-5)]
    return FnOb(reals("x", nv, -3.0, 3.0), run, expect_nonlinear=True)


def ref_re_parts(A, b, x, data):
    p = refs.mm(A, np.asarray(x, dtype=object).reshape(-1, 1)).reshape(-1) + b
    out, pos = [], 0
    for (n, q) in data:
        s_ = len(q)
        out.append(([p[pos + j] for j in range(s_)], list(flat(q)), list(range(pos, pos + s_))))
        pos += s_
    return out


def ob_re(tomo, sysname, m, flag, kind, weighted, zero_q=False):
    """relative-entropy loss away from the clipping thresholds (q, p >= 1e-3): value == sum_i w_i sum_x q ln(q/p) (ln uninterpreted),
    gradient == -sum w q a/p, Hessian == sum w q a a^T / p^2 (generic), fast == same formulas"""
    d = DIMS[sysname]
    nv = c03.n_var(TOMO_TYPE[tomo], d, m, flag)
    qt0, _, sel0, sched0 = build_qt(tomo, sysname, m, flag)
    sizes = sizes_of(tomo, sysname, m, sel0, sched0)
    nq = sum(sizes)
    wts = [0.5 + 0.75 * k for k in range(len(sizes))]

    def model_p(I):
        qt, tmpl, sel, sched = build_qt(tomo, sysname, m, flag)
        x = vec_of(I, "x", nv)
        A, b = qt.calc_matA(), qt.calc_vecB()
        return qt, x, A, b

    def assume(I):
        qt, x, A, b = model_p(I)
        p = refs.mm(A, np.asarray(x, dtype=object).reshape(-1, 1)).reshape(-1) + b
        return [SBool.of(Sym.of(t) >= 1e-3) for t in p]

    def run(I):
        qt, x, A, b = model_p(I)
        data = data_from(I, sizes)
        if zero_q:
            # empirical distributions with never-observed outcomes (exact zeros, also BEFORE an observed one): 0 ln 0 := 0, and the observed
            # outcomes keep their own rows of the model
            pats = {2: [[0.0, 1.0], [0.4, 0.6], [1.0, 0.0]], 3: [[0.4, 0.0, 0.6], [0.0, 0.0, 1.0], [0.2, 0.8, 0.0]]}
            data = [(1, np.array(pats[s_][k % 3], dtype=np.float64)) for k, s_ in enumerate(sizes)]
        opt = re_option("custom", [float(w) for w in wts]) if weighted else re_option("identity")
        loss = make_loss(kind, qt, opt, data)
        val = loss.value(x)
        parts = ref_re_parts(A, b, x, data)
        ref_val = 0
        ref_grad = [0] * nv
        ref_hess = [[0] * nv for _ in range(nv)]
        for k, (ps, qs_, rows) in enumerate(parts):
            w = wts[k] if weighted else 1.0
            for pj, qj, row in zip(ps, qs_, rows):
                if zero_q and not isinstance(qj, Sym) and qj == 0:
                    continue
                ref_val = ref_val + w * (qj * (Sym.of(qj) / pj).log() if isinstance(qj, Sym) or isinstance(pj, Sym) else qj * np.log(qj / pj))
                for a in range(nv):
                    ref_grad[a] = ref_grad[a] - w * qj * A[row, a] / pj
                    for c_ in range(nv):
                        ref_hess[a][c_] = ref_hess[a][c_] + w * qj * A[row, a] * A[row, c_] / (pj * pj)
        # quotients by p >= 1e-3 (p^2 >= 1e-6) with numerators in [-1e2, 1e2]: stated as lemmas, proved by the exact solver
        for qa in core.div_atoms():
            core.lemma(SBool.of(qa <= 1e9) & SBool.of(qa >= -1e9))
        out = [Eq("value == sum w q ln(q/p)", val, ref_val, 1e-7),
               Eq("gradient == -sum w q a / p", loss.gradient(x), np.array(ref_grad, dtype=object), 1e-6)]
        if kind == "re":
            out.append(Eq("Hessian == sum w q a a^T / p^2", loss.hessian(x), np.array(ref_hess, dtype=object), 1e-5))
        return out
    return FnOb(reals("x", nv, -1.0, 1.0) + [(f"q{i}", "real", 1e-3, 1.0) for i in range(nq)], run, assume=assume, eager_ite=True,
                max_paths=64, expect_nonlinear=True, stubs=["np.log: uninterpreted function ln (congruence only)"],
                outside=["behaviour at the documented clipping thresholds (q or p below 1e-10)"])


def ob_simple_quadratic(n):
    def run(I):
        from quara.loss_function.simple_quadratic_loss_function import SimpleQuadraticLossFunction
        ref = vec_of(I, "r", n)
        x = vec_of(I, "x", n)
        h = vec_of(I, "h", n)
        loss = SimpleQuadraticLossFunction(ref)
        fx, fxh = loss.value(x), loss.value(x + h)
        g, H = loss.gradient(x), loss.hessian(x)
        lin = sum(g[i] * h[i] for i in range(n))
        quad = sum(h[i] * H[i, j] * h[j] for i in range(n) for j in range(n))
        tot = 0
        for i in range(n):
            tot = tot + (x[i] - ref[i]) * (x[i] - ref[i])
        return [Eq("value == |x - ref|^2", fx, tot, 1e-9), Eq("exact Taylor identity", fxh - fx - lin - quad * 0.5, 0.0, 1e-9)]
    return FnOb(reals("r", n, -3.0, 3.0) + reals("x", n, -3.0, 3.0) + reals("h", n, -3.0, 3.0), run, expect_nonlinear=True)


def obligations(tier):
    out = []
    cfgs = [("qst", "Q1", 0), ("povmt", "Q1", 2), ("povmt", "Q1", 3)] + tiers(tier, [], [("qpt", "Q1", 0), ("qmpt", "Q1", 2), ("qst", "T1", 0), ("povmt", "Q1", 4)])
    for tomo, s, m in cfgs:
        for flag in (True, False):
            for kind in ("se", "se_fast"):
                for wmode in ("identity", "custom"):
                    if tomo in ("qpt", "qmpt") and wmode == "custom":
                        continue
                    out += specs("C12.se.taylor", [{"tomo": tomo, "sysname": s, "m": m, "flag": flag, "kind": kind, "wmode": wmode}], ob_se_taylor, 3)
            for wmode in ("identity", "custom", "inverse_sample_covariance"):
                out += specs("C12.se.fast_eq_generic", [{"tomo": tomo, "sysname": s, "m": m, "flag": flag, "wmode": wmode}], ob_se_fast_eq_generic, 2)
    for tomo, s, m in [("qst", "Q1", 0), ("povmt", "Q1", 3)] + tiers(tier, [], [("povmt", "Q1", 4), ("povmt", "Q1", 5)]):
        for kind in ("se", "se_fast"):
            for mode in ("inverse_sample_covariance", "inverse_unbiased_covariance", "unbiased_inverse_covariance"):
                out += specs("C12.se.mode", [{"tomo": tomo, "sysname": s, "m": m, "flag": False, "kind": kind, "mode": mode}], ob_se_mode, 2)
    for tomo, s, m in [("qst", "Q1", 0), ("povmt", "Q1", 2)] + tiers(tier, [], [("povmt", "Q1", 3)]):
        for flag in (True, False):
            for kind in ("re", "re_fast"):
                for weighted in (False, True):
                    if tier == "quick" and (tomo, kind) == ("povmt", "re") and not (flag and weighted):
                        continue        # the generic relative entropy on POVMT needs minutes of lemma proofs: one configuration in quick
                    out += specs("C12.re", [{"tomo": tomo, "sysname": s, "m": m, "flag": flag, "kind": kind, "weighted": weighted}], ob_re, 4)
    # testers with elements of unequal trace: the constant part (vecB) of the model differs from schedule to schedule
    for flag in (True, False):
        for kind in ("se", "se_fast"):
            out += specs("C12.se.taylor", [{"tomo": "qst", "sysname": "Q1", "m": 0, "flag": flag, "kind": kind, "wmode": "identity", "testers": "unbal2"}], with_testers(ob_se_taylor), 3)
        out += specs("C12.se.fast_eq_generic", [{"tomo": "qst", "sysname": "Q1", "m": 0, "flag": flag, "wmode": "custom", "testers": "unbal2"}], with_testers(ob_se_fast_eq_generic), 2)
        for kind in ("re", "re_fast"):
            out += specs("C12.re", [{"tomo": "qst", "sysname": "Q1", "m": 0, "flag": flag, "kind": kind, "weighted": True, "testers": "unbal2"}], with_testers(ob_re), 4)
    for tomo, s_, m in [("qst", "Q1", 0), ("povmt", "Q1", 3)]:
        for flag in (True, False):
            out += specs("C12.se.direct", [{"tomo": tomo, "sysname": s_, "m": m, "flag": flag}], ob_se_direct, 2)
    for kind in ("re", "re_fast"):
        out += specs("C12.re", [{"tomo": "qst", "sysname": "Q1", "m": 0, "flag": fl, "kind": kind, "weighted": True, "zero_q": True} for fl in (True, False)], ob_re, 4)
        out += specs("C12.re", [{"tomo": "povmt", "sysname": "Q1", "m": 3, "flag": False, "kind": kind, "weighted": False, "zero_q": True}], ob_re, 4)
    out += specs("C12.simple_quadratic", [{"n": n} for n in (2, 4)], ob_simple_quadratic, 1)
    return out


if __name__ == "__main__":
    sys.exit(main("C12", "c12"))
