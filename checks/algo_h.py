"""harness pieces shared by C10 / C11: uninterpreted loss (value f, gradient g), uninterpreted projection P, reference recurrences"""
from common import *
import io, contextlib


def _conc_maps(n):
    rng = np.random.RandomState(77 + n)
    Q = rng.normal(size=(n, n))
    Q = Q @ Q.T / n + np.eye(n)
    c = rng.normal(size=n)
    f = lambda *x: float(0.5 * np.array(x) @ Q @ np.array(x) + c @ np.array(x) + 3.0)
    g = lambda *x: list(Q @ np.array(x) + c)
    P = lambda *x: list(np.clip(np.array(x), -0.7, 0.9))
    return f, g, P


def uf_vec(name, x, conc, nout):
    xs = list(flat(x))
    if not core.CTX.active and not any(isinstance(t, Sym) and not t.is_const() for t in xs):
        vals = conc(*[float(Sym.of(t).cval()) if isinstance(t, Sym) else float(t) for t in xs])
        return np.array(vals, dtype=np.float64)
    return SymNd([core.CTX.def_uf(name, xs, concrete=conc, index=i) for i in range(nout)])


def uf_scalar(name, x, conc):
    xs = list(flat(x))
    if not core.CTX.active and not any(isinstance(t, Sym) and not t.is_const() for t in xs):
        return float(conc(*[float(Sym.of(t).cval()) if isinstance(t, Sym) else float(t) for t in xs]))
    return core.CTX.def_uf(name, xs, concrete=conc)


class UFLoss:
    """duck-typed loss: value and gradient are uninterpreted functions of the variable vector"""
    on_value = True
    on_gradient = True
    on_hessian = False

    def __init__(self, n):
        self.n = n
        self.num_var = n
        self.f, self.g, _ = _conc_maps(n)

    def value(self, var, validate=False):
        return uf_scalar("f", var, self.f)

    def gradient(self, var, validate=False):
        return uf_vec("g", var, self.g, self.n)


def uf_proj(n):
    _, _, P = _conc_maps(n)
    return lambda var: uf_vec("P", var, P, n)


def quiet(fn, *a, **kw):
    with contextlib.redirect_stdout(io.StringIO()):
        return fn(*a, **kw)


def dot(a, b):
    t = 0
    for x, y in zip(flat(a), flat(b)):
        t = t + x * y
    return t


def sqnorm(a):
    return dot(a, a)
