"""harness pieces shared by C10 / C11: uninterpreted loss (value f, gradient g), uninterpreted projection P, reference recurrences"""
from common import *
import io, contextlib


def _conc_maps(n):
    rng = np.random.RandomState(77 + n)
    Q = rng.normal(size=(n, n))
    Q = Q @ Q.T / n + np.eye(n)
    c = rng.normal(size=n)
    f = lambda *x: float(0.5 * np.array(x) @ Q @ np.array(x) + c @ np.array(x) + 3.0)
    g = lambda *x: list(Q @ np.array(x) + c)
    P = lambda *x: list(np.clip(np.array(x), -0.7, 0.9))
    return f, g, P


def uf_vec(name, x, conc, nout):
    xs = list(flat(x))
    if not core.CTX.active and not any(isinstance(t, Sym) and not t.is_const() for t in xs):
        vals = conc(*[float(Sym.of(t).cval()) if isinstance(t, Sym) else float(t) for t in xs])
        return np.array(vals, dtype=np.float64)
    return SymNd([core.CTX.def_uf(name, xs, concrete=conc, index=i) for i in range(nout)])


def uf_scalar(name, x, conc):
    xs = list(flat(x))
    if not core.CTX.active and not any(isinstance(t, Sym) and not t.is_const() for t in xs):
        return float(conc(*[float(Sym.of(t).cval()) if isinstance(t, Sym) else float(t) for t in xs]))
    return core.CTX.def_uf(name, xs, concrete=conc)


class UFLoss:
    """duck-typed loss: value and gradient are uninterpreted functions of the variable vector"""
    on_value = True
    on_gradient = True
    on_hessian = False

    def __init__(self, n, max_points=None):
        self.n = n
        self.num_var = n
        self.f, self.g, _ = _conc_maps(n)
        # bound on the line search that does not depend on how the algorithm is organised internally: the number of DISTINCT points
        # at which the loss value is requested during one symbolic run (start point + trial points); beyond it the path is outside
        self.max_points = max_points
        self.points = set()

    def value(self, var, validate=False):
        if self.max_points is not None and core.CTX.active:
            self.points.add(tuple(str(t) for t in flat(var)))
            if len(self.points) > self.max_points:
                raise core.Outside("line search deeper than the explored bound (distinct loss evaluations)")
        return uf_scalar("f", var, self.f)

    def gradient(self, var, validate=False):
        return uf_vec("g", var, self.g, self.n)


def uf_proj(n):
    _, _, P = _conc_maps(n)
    return lambda var: uf_vec("P", var, P, n)


def quiet(fn, *a, **kw):
    with contextlib.redirect_stdout(io.StringIO()):
        return fn(*a, **kw)


def dot(a, b):
    t = 0
    for x, y in zip(flat(a), flat(b)):
        t = t + x * y
    return t


def sqnorm(a):
    return dot(a, a)


def line_search_limit(iters, maxh):
    """distinct loss-evaluation points of `iters` backtracking iterations with at most `maxh` halvings each: the start point plus
    maxh + 1 trial points per iteration (the accepted trial point is the next iteration's start point)"""
    return 1 + iters * (maxh + 1)


def outside_if_deeper(alphas, maxh):
    """a recorded step size below 2^-maxh means the line search went deeper than the explored bound: the path is outside the claim"""
    for al in alphas:
        if float(al) < 2.0 ** (-maxh):
            raise core.Outside("alpha halving deeper than the explored bound")
