#!/usr/bin/env python
"""C10 -- constrained estimators return physical, consistent estimates (wiring of the physical projection into the estimators,
choice of the projection from the constraint flags, feasibility invariant of the iterates, start point, fixed point)."""
from common import *
from algo_h import *
import c03, c05, c08, c09, tomo_lib

TOMO_TYPE = c08.TOMO_TYPE


def tiers(tier, quick, thorough):
    return quick if tier == "quick" else thorough


def stub_ctx(tomo, sysname, m):
    d = DIMS[sysname]
    ns = c03.n_stacked(TOMO_TYPE[tomo], d, m)
    return c05.stubbed_projections(c03.cls_of(TOMO_TYPE[tomo]), ns), ns


class bounded_dykstra:
    """ProjectedLinearEstimator calls calc_proj_physical() with its default max_iteration=1000; the symbolic run unrolls the loop
    through the routine's own max_iteration parameter (K sweeps) -- everything else is the real code"""

    def __init__(self, K):
        self.K = K

    def __enter__(self):
        from quara.objects.qoperation import QOperation
        self.cls = QOperation
        self.orig = QOperation.calc_proj_physical
        K, orig = self.K, self.orig

        def wrapped(self_, max_iteration=1000, is_iteration_history=False):
            return orig(self_, max_iteration=min(K, max_iteration), is_iteration_history=is_iteration_history)
        QOperation.calc_proj_physical = wrapped
        return self

    def __exit__(self, *a):
        self.cls.calc_proj_physical = self.orig
        return False


def ob_ple_wiring(tomo, sysname, m, flag, order, fix):
    """ProjectedLinearEstimator with the two constraint projections uninterpreted and symbolic data f:
    estimated_var == to_var( calc_proj_physical( linear estimate with mode_proj_order set ) ), i.e. the projected linear
    estimate is precisely the physical projection (in the requested order) of the linear estimate;
    fix=True: data are the exact distributions of x and both projections fix that object -> the estimator returns x"""
    d = DIMS[sysname]
    nv = c03.n_var(TOMO_TYPE[tomo], d, m, flag)
    sel = c09.uniform_sel(tomo, sysname, False)
    sched = c08.default_schedules(tomo, sel)
    pm = tomo_lib.povm_mats(sysname)
    if tomo == "qst":
        sizes = [len(pm[sel["povms"][s[1][1]]]) for s in sched]
    elif tomo == "povmt":
        sizes = [m for s in sched]
    elif tomo == "qpt":
        sizes = [len(pm[sel["povms"][s[2][1]]]) for s in sched]
    else:
        sizes = [m * len(pm[sel["povms"][s[2][1]]]) for s in sched]
    nf = sum(sizes)

    def run(I):
        from quara.protocol.qtomography.standard.projected_linear_estimator import ProjectedLinearEstimator
        from quara.protocol.qtomography.standard.linear_estimator import LinearEstimator
        qt, tmpl = tomo_lib.build(tomo, sysname, m=m, flag=flag, sel=sel)
        ctx, ns = stub_ctx(tomo, sysname, m)
        if fix:
            x = vec_of(I, "x", nv)
            ref = c08.born_reference(tomo, sysname, m, flag, x, sched, sel)
            data = [c09.as_dist(ps, 100) for ps in ref]
        else:
            f = [I[f"f{i}"] for i in range(nf)]
            data = [c09.as_dist(ps, 100) for ps in c09.split(f, sizes)]
        with ctx, bounded_dykstra(2):
            lin = LinearEstimator().calc_estimate(qt, data)
            lin_obj = lin.estimated_qoperation
            if fix:
                if not nd.has_sym(lin_obj.to_stacked_vector()):
                    raise core.AssumptionFailed()
                st = list(flat(lin_obj.to_stacked_vector()))
                for name in ("Peq", "Pineq"):
                    for i in range(len(st)):
                        core.CTX.seed_uf(name, st, st[i], index=i)
            est = ProjectedLinearEstimator(mode_proj_order=order)
            res = quiet(est.calc_estimate, qt, data)
            lin_obj.set_mode_proj_order(order)
            expect = quiet(lin_obj.calc_proj_physical).to_var()
            res_t = quiet(est.calc_estimate, qt, data, True)
        out = [Eq("estimated_var == to_var(physical projection of the linear estimate)", res.estimated_var, expect, 1e-9),
               Eq("same with computation times requested", res_t.estimated_var, expect, 1e-9),
               Holds("estimated object carries the template's flag", res.estimated_qoperation.on_para_eq_constraint == flag)]
        if fix:
            out.append(Eq("exact data of a (projection-)fixed object: the estimator returns it", res.estimated_var, x, 1e-7))
        return out
    inp = reals("x", nv, -5.0, 5.0) if fix else [(f"f{i}", "real", -1.0, 2.0) for i in range(nf)]
    return FnOb(inp, run, max_paths=100, expect_nonlinear=True, tv_points=(0 if fix else 2), explore_budget=200,
                stubs=["calc_proj_eq_constraint / calc_proj_ineq_constraint: uninterpreted Peq, Pineq (as in C05)",
                       "calc_proj_physical called with max_iteration capped at 2 (the routine's own bound)"],
                outside=["convergence of the physical projection (C05's outside)", "Dykstra sweeps beyond the default max_iteration are never reached because the stopping test is explored symbolically"])


def ob_ple_exact(tomo, m, flag, order, vname):
    """end to end with the REAL projections: exact distributions of a physical object (given by spectral decompositions in a
    common frame V, non-negative spectrum, equality constraint built in) -> ProjectedLinearEstimator returns that object
    (interior and boundary: eigenvalues range over [0,1] including 0)"""
    from symq import stubs
    sysname = "Q1"
    d = 2
    V = dict(refs.unitary_library(d))[vname]
    Vr = V[:, ::-1].copy()
    B = basis_of(sysname)
    sel = c09.uniform_sel(tomo, sysname, False)
    sched = c08.default_schedules(tomo, sel)
    k = 1 if tomo == "qst" else m

    def spectra(I):
        if tomo == "qst":
            w0 = I["w0"]
            return [[w0, 1 - w0]]
        ws = [[I[f"w{j}_0"], I[f"w{j}_1"]] for j in range(m - 1)]
        last = [1 - sum(w[0] for w in ws), 1 - sum(w[1] for w in ws)]
        return ws + [last]

    def assume(I):
        out = []
        for j, w in enumerate(spectra(I)):
            out += [SBool.of(Sym.of(w[0]) >= 0) if isinstance(w[0], Sym) else (w[0] >= 0), SBool.of(Sym.of(w[1]) >= 0) if isinstance(w[1], Sym) else (w[1] >= 0)]
            # ascending in frame V for all but the last element, descending (ascending in the reversed frame) for the last one
            if tomo == "qst" or j < m - 1:
                out.append(SBool.of(Sym.of(w[0]) <= w[1]) if isinstance(w[0], Sym) or isinstance(w[1], Sym) else (w[0] <= w[1]))
            else:
                out.append(SBool.of(Sym.of(w[0]) >= w[1]) if isinstance(w[0], Sym) or isinstance(w[1], Sym) else (w[0] >= w[1]))
        return out

    def run(I):
        from quara.protocol.qtomography.standard.projected_linear_estimator import ProjectedLinearEstimator
        qt, tmpl = tomo_lib.build(tomo, sysname, m=m, flag=flag, sel=sel)
        sp = spectra(I)
        mats = []
        for j, w in enumerate(sp):
            if tomo == "qst" or j < m - 1:
                mats.append(stubs.spectral([w[0], w[1]], V, f"E{j}"))
            else:
                mats.append(stubs.spectral([w[1], w[0]], Vr, f"E{j}"))
        parts = [refs.ref_vec(M, B).real for M in mats]
        stacked = np.concatenate([np.asarray(p, dtype=object) for p in parts])
        cls = c03.cls_of(TOMO_TYPE[tomo])
        c = qenv.csys(sysname)
        x = cls.convert_stacked_vector_to_var(c, (SymNd(list(stacked)) if nd.has_sym(stacked) else nd.to_concrete(stacked).astype(np.float64)), on_para_eq_constraint=flag)
        ref = c08.born_reference(tomo, sysname, m, flag, x, sched, sel)
        data = [c09.as_dist(ps, 100) for ps in ref]
        est = ProjectedLinearEstimator(mode_proj_order=order)
        with bounded_dykstra(3):
            res = quiet(est.calc_estimate, qt, data)
        return [Eq("projected linear estimate of exact data == the true physical object", res.estimated_var, x, 1e-6)]
    if tomo == "qst":
        inp = [("w0", "real", 0.0, 0.5)]
    else:
        inp = [(f"w{j}_{i}", "real", 0.0, 1.0) for j in range(m - 1) for i in range(2)]
    return FnOb(inp, run, assume=assume, max_paths=60, expect_nonlinear=True, explore_budget=200,
                stubs=["np.linalg.eigh: spectral parametrisation (frame " + vname + "); calc_proj_physical capped at 3 sweeps"],
                outside=["objects whose elements do not commute (one common eigen-frame is used)"])


FLAGS = [(True, True), (True, False), (False, True), (False, False)]


def ob_select_proj(tomo, sysname, m, flag, first, second):
    """set_constraint_from_standard_qt_and_option picks the projection from the constraint flags; applied to a symbolic variable
    vector the chosen closure equals the documented projection; a second configuration of the SAME algorithm object (re-use) picks
    the projection for the new flags"""
    d = DIMS[sysname]
    nv = c03.n_var(TOMO_TYPE[tomo], d, m, flag)

    def expected(tmpl, flags, v, K):
        cls = type(tmpl)
        c = tmpl.composite_system
        eqf, inf_ = flags
        if eqf and inf_:
            return quiet(tmpl.calc_proj_physical_with_var, v.copy(), on_para_eq_constraint=flag, max_iteration=K)
        if eqf:
            return cls.calc_proj_eq_constraint_with_var(c, v.copy(), on_para_eq_constraint=flag)
        if inf_:
            return cls.calc_proj_ineq_constraint_with_var(c, v.copy(), on_para_eq_constraint=flag)
        return v

    def run(I):
        from quara.minimization_algorithm.projected_gradient_descent_backtracking import (
            ProjectedGradientDescentBacktracking, ProjectedGradientDescentBacktrackingOption)
        qt, tmpl = tomo_lib.build(tomo, sysname, m=m, flag=flag)
        ctx, ns = stub_ctx(tomo, sysname, m)
        v = vec_of(I, "v", nv)
        K = 2
        out = []
        from symq import stubs as _st
        import contextlib as _cl
        algo = ProjectedGradientDescentBacktracking()
        for step, flags in enumerate([first] + ([second] if second is not None else [])):
            flags = tuple(flags)
            opt = ProjectedGradientDescentBacktrackingOption(on_algo_eq_constraint=flags[0], on_algo_ineq_constraint=flags[1],
                                                            max_iteration_proj_physical=K)
            algo.set_from_option(opt)
            # the Dykstra loop (both flags) runs over uninterpreted projections; a single projection is the real code
            # (eigen-decomposition uninterpreted: both sides are the same function of the same decomposition)
            with (ctx if flags == (True, True) else _cl.nullcontext()):
                _st.uf_mode(flags != (True, True))
                algo.set_constraint_from_standard_qt_and_option(qt, opt)
                got = quiet(algo.func_proj, v.copy())
                exp = expected(qt.generate_empty_estimation_obj_with_setting_info(), flags, v, K)
            out.append(Eq(f"configuration {step + 1} (eq={flags[0]}, ineq={flags[1]}): func_proj(v) == documented projection", got, exp, 1e-9))
            if flags == (True, False) and not flag and tomo in ("qst", "povmt"):
                # independent of the library: the equality-only projection lands ON the constraint set (tr rho = 1 / sum_x E_x = I)
                n = d * d
                g = list(flat(got))
                if tomo == "qst":
                    out.append(Eq("equality-only projection: identity coefficient == 1/sqrt(d)", np.array(g[:1], dtype=object), np.array([1 / np.sqrt(d)]), 1e-9))
                else:
                    tot = [sum((g[k * n + j] for k in range(1, m)), g[j]) for j in range(n)]
                    out.append(Eq("equality-only projection: the elements sum to the identity", np.array(tot, dtype=object), np.array([np.sqrt(d)] + [0.0] * (n - 1)), 1e-9))
        return out
    return FnOb(reals("v", nv, -5.0, 5.0), run, max_paths=100, expect_nonlinear=True,
                stubs=["constraint projections uninterpreted (Peq, Pineq); physical projection unrolled to max_iteration_proj_physical = 2"])


def ob_lme_sequence(kind, mode):
    """LossMinimizationEstimator.calc_estimate_sequence wiring: for EVERY data set of the sequence the loss is configured for that data
    set (data, weights of the requested mode) before the algorithm runs.  The algorithm is a probe that returns the loss' gradient at a
    symbolic point as its "estimate": entry k of the sequence result == gradient of a FRESH loss configured for data set k alone"""
    import c12
    tomo, sysname, m_, flag = "qst", "Q1", 0, False
    nv = c03.n_var(TOMO_TYPE[tomo], 2, m_, flag)
    rng = np.random.RandomState(21)
    sizes = [2, 2, 2]
    D = [[(30 + 25 * k, rng.dirichlet(np.ones(s_) * 2.0)) for s_ in sizes] for k in range(3)]

    def run(I):
        from quara.protocol.qtomography.standard.loss_minimization_estimator import LossMinimizationEstimator
        from quara.minimization_algorithm.minimization_algorithm import MinimizationAlgorithm, MinimizationAlgorithmOption, MinimizationResult
        qt, tmpl, sel, sched = c12.build_qt(tomo, sysname, m_, flag)
        x = vec_of(I, "x", nv)

        class Probe(MinimizationAlgorithm):
            def __init__(self):
                super().__init__()
                self._is_gradient_required = True

            def is_loss_sufficient(self):
                return True

            def set_constraint_from_standard_qt_and_option(self, qt_, option_):
                pass

            def is_option_sufficient(self):
                return True

            def is_loss_and_option_sufficient(self):
                return True

            def optimize(self, loss_function, loss_function_option, algorithm_option, on_iteration_history=False):
                return MinimizationResult(loss_function.gradient(x), computation_time=0.0)
        opt = (lambda: c12.se_option(mode)) if kind.startswith("se") else (lambda: c12.re_option(mode))
        cls = type(c12.make_loss(kind, qt, opt(), [(n, q.copy()) for n, q in D[0]]))
        loss = cls()
        res = LossMinimizationEstimator().calc_estimate_sequence(qt, [[(n, q.copy()) for n, q in d_] for d_ in D], loss, opt(), Probe(), MinimizationAlgorithmOption(),
                                                                 is_computation_time_required=False)
        out = [Holds("one estimate per data set", len(res.estimated_var_sequence) == len(D))]
        for k, d_ in enumerate(D):
            fresh = c12.make_loss(kind, qt, opt(), [(n, q.copy()) for n, q in d_])
            out.append(Eq(f"data set {k}: the loss the algorithm saw == a fresh loss configured for that data set", res.estimated_var_sequence[k], fresh.gradient(x), 1e-7))
        return out
    return FnOb(reals("x", nv, -1.0, 1.0), run, max_paths=40, expect_nonlinear=True, eager_ite=True)


def ob_start_point(tomo, sysname, m, flag, algo_name):
    """without var_start the algorithms start from the variables of the origin object of the estimation template"""
    d = DIMS[sysname]
    nv = c03.n_var(TOMO_TYPE[tomo], d, m, flag)

    def run(I):
        import quara.minimization_algorithm.projected_gradient_descent_backtracking as B
        import quara.minimization_algorithm.projected_gradient_descent_with_momentum as M
        import quara.minimization_algorithm.projected_fast_iterative_shrinkage_thresholding_algorithm as F
        qt, tmpl = tomo_lib.build(tomo, sysname, m=m, flag=flag)
        loss = UFLoss(nv)
        P = uf_proj(nv)
        eps = I["eps"]
        if algo_name == "backtracking":
            algo = B.ProjectedGradientDescentBacktracking(func_proj=P)
            opt = B.ProjectedGradientDescentBacktrackingOption(gamma=0.3, eps=eps, max_iteration_optimization=1)      # mu left at its default (None)
        elif algo_name == "momentum":
            algo = M.ProjectedGradientDescentWithMomentum(func_proj=P)
            opt = M.ProjectedGradientDescentWithMomentumOption(r=1.0, eps=eps, max_iteration_optimization=1)
        else:
            algo = F.ProjectedFastIterativeShrinkageThresholdingAlgorithm(func_proj=P)
            opt = F.ProjectedFastIterativeShrinkageThresholdingAlgorithmOption(eps=eps, max_iteration_optimization=1)
        algo.set_from_loss(loss)
        algo.set_from_option(opt)
        algo.set_constraint_from_standard_qt_and_option(qt, opt)
        opt_before = dict(vars(opt))
        import c11
        loss.max_points = line_search_limit(1, 2)
        res = quiet(algo.optimize, loss, None, opt, on_iteration_history=True)
        if algo_name == "backtracking":
            outside_if_deeper(res.alpha, 2)
        origin = qt.generate_empty_estimation_obj_with_setting_info().generate_origin_obj()
        st = c03.ref_stacked_from_var(TOMO_TYPE[tomo], d, m, flag, origin.to_var())
        out = [Eq("x[0] == origin object's variables", res.x[0], origin.to_var(), 0.0),
               Holds("origin object is physical", bool(origin.is_physical(1e-12, 1e-12))),
               Eq("origin variables describe the origin object", np.array(st, dtype=object), origin.to_stacked_vector(), 1e-12)]
        # defaults derived during the run (start point, mu) are not written back into the option object
        opt_after = dict(vars(opt))
        out.append(Holds("the option object is unchanged by the run", sorted(opt_before) == sorted(opt_after) and
                         all((opt_before[k_] is opt_after[k_]) or (not isinstance(opt_before[k_], (np.ndarray, Sym)) and opt_before[k_] == opt_after[k_]) for k_ in opt_before)))
        return out
    return FnOb([("eps", "real", 1e-12, 1e-2)], run, max_paths=60, expect_nonlinear=True, stubs=["f, g, P uninterpreted"])


def obligations(tier):
    out = []
    cfgs = [("qst", "Q1", 0), ("povmt", "Q1", 2)] + tiers(tier, [("qpt", "Q1", 0)], [("qpt", "Q1", 0), ("qmpt", "Q1", 2), ("povmt", "Q1", 3)])
    for tomo, s, m in cfgs:
        for flag in (True, False):
            for order in ("eq_ineq", "ineq_eq"):
                out += specs("C10.ple.wiring", [{"tomo": tomo, "sysname": s, "m": m, "flag": flag, "order": order, "fix": False}], ob_ple_wiring, 6)
            out += specs("C10.ple.fixpoint", [{"tomo": tomo, "sysname": s, "m": m, "flag": flag, "order": "eq_ineq", "fix": True}], ob_ple_wiring, 3)
    for tomo, m in [("qst", 0), ("povmt", 2), ("povmt", 3)]:
        for flag in (True, False):
            for order in ("eq_ineq", "ineq_eq"):
                out += specs("C10.ple.exact", [{"tomo": tomo, "m": m, "flag": flag, "order": order, "vname": "cplx"}], ob_ple_exact, 5)
    for tomo, s, m in [("qst", "Q1", 0), ("povmt", "Q1", 2)]:
        for flag in (True, False):
            for first in FLAGS:
                out += specs("C10.select_proj", [{"tomo": tomo, "sysname": s, "m": m, "flag": flag, "first": list(first), "second": None}], ob_select_proj, 3)
            for first, second in tiers(tier, [(FLAGS[0], FLAGS[3]), (FLAGS[3], FLAGS[1])], [(a, b) for a in FLAGS for b in FLAGS if a != b]):
                out += specs("C10.select_proj.reuse", [{"tomo": tomo, "sysname": s, "m": m, "flag": flag, "first": list(first), "second": list(second)}], ob_select_proj, 4)
    # number of outcomes different from the dimension (the constants sqrt(d)/m and 1/sqrt(d) differ)
    out += specs("C10.select_proj", [{"tomo": "povmt", "sysname": "Q1", "m": 3, "flag": False, "first": [True, False], "second": None}], ob_select_proj, 3)
    for tomo, s, m in [("qst", "Q1", 0), ("povmt", "Q1", 2), ("qpt", "Q1", 0)]:
        for algo_name in ("backtracking", "momentum", "fista"):
            out += specs("C10.start_point", [{"tomo": tomo, "sysname": s, "m": m, "flag": f, "algo_name": algo_name} for f in (True, False)], ob_start_point, 1)
    out += specs("C10.lme.sequence", [{"kind": k_, "mode": md} for k_ in ("se", "se_fast") for md in ("identity", "inverse_sample_covariance", "inverse_unbiased_covariance")] +
                 [{"kind": "re_fast", "mode": "identity"}], ob_lme_sequence, 3)
    return out


if __name__ == "__main__":
    sys.exit(main("C10", "c10"))
