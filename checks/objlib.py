"""concrete library of physical, asymmetric, non-commuting operations built from Kraus operators (textbook formulas)"""
import numpy as np
from common import *
import tomo_lib


def hs_from_kraus(ks, sysname):
    B = basis_of(sysname)
    n = len(B)
    hs = np.zeros((n, n), dtype=complex)
    for K in ks:
        for b in range(n):
            M = K @ B[b] @ K.conj().T
            for a in range(n):
                hs[a, b] += np.trace(B[a].conj().T @ M)
    assert np.max(np.abs(hs.imag)) < 1e-12
    return np.ascontiguousarray(hs.real)


def _unitary(d, seed):
    rng = np.random.RandomState(seed)
    A = rng.normal(size=(d, d)) + 1j * rng.normal(size=(d, d))
    q, r = np.linalg.qr(A)
    return q * (np.diag(r) / np.abs(np.diag(r)))


def gate_kraus(sysname):
    d = DIMS[sysname]
    out = {}
    if d == 2:
        g = 0.3
        out["ampdamp"] = [np.array([[1, 0], [0, np.sqrt(1 - g)]], dtype=complex), np.array([[0, np.sqrt(g)], [0, 0]], dtype=complex)]
        out["S"] = [np.diag([1, 1j]).astype(complex)]
        out["rx"] = [np.array([[np.cos(0.4), -1j * np.sin(0.4)], [-1j * np.sin(0.4), np.cos(0.4)]])]
    U = _unitary(d, 7)
    W = _unitary(d, 11)
    out["U"] = [U]
    out["mix"] = [np.sqrt(0.7) * U, np.sqrt(0.3) * W]
    return out


def mprocess_kraus(sysname):
    """each measurement process: list (outcomes) of lists of Kraus operators"""
    d = DIMS[sysname]
    out = {}
    U = _unitary(d, 3)
    W = _unitary(d, 5)
    e = np.eye(d, dtype=complex)
    P = [np.outer(e[i], e[i].conj()) for i in range(d)]
    # projective z measurement followed by outcome-dependent unitaries (non-normal Kraus operators, not self-adjoint)
    if d == 2:
        out["z_then_U"] = [[U @ P[0]], [W @ P[1]]]
        # 3-outcome instrument from the trine POVM with back-action K_x = U_x sqrt(E_x)
        tr = tomo_lib.povm_mats("Q1")[3]
        def sq(E):
            w, v = np.linalg.eigh(E)
            return v @ np.diag(np.sqrt(np.clip(w, 0, None))) @ v.conj().T
        out["trine3"] = [[U @ sq(tr[0])], [sq(tr[1])], [W @ sq(tr[2])]]
        # measure-and-reset with a coarse-grained outcome (2 Kraus operators in one outcome)
        out["reset2"] = [[np.outer(e[0], e[0].conj()), np.outer(e[0], e[1].conj()) * np.sqrt(0.5)], [np.sqrt(0.5) * P[1]]]
        out["zproj"] = [[P[0]], [P[1]]]
    else:
        out["proj_then_U"] = [[U @ P[0]], [W @ (P[1] + (P[2] if d > 2 else 0))]] if d == 3 else [[U @ (P[0] + P[1])], [W @ (P[2] + P[3])]]
        out["dproj"] = [[P[i]] for i in range(d)]
    return out


_C = {}


def gates(sysname):
    if ("g", sysname) not in _C:
        c = qenv.csys(sysname)
        _C[("g", sysname)] = {k: mk_gate(c, hs_from_kraus(ks, sysname)) for k, ks in gate_kraus(sysname).items()}
    return _C[("g", sysname)]


def mprocesses(sysname):
    if ("m", sysname) not in _C:
        c = qenv.csys(sysname)
        _C[("m", sysname)] = {k: mk_mprocess(c, [hs_from_kraus(ks, sysname) for ks in outs]) for k, outs in mprocess_kraus(sysname).items()}
    return _C[("m", sysname)]


def apply_kraus(ks, rho):
    out = np.zeros(rho.shape, dtype=object)
    for K in ks:
        out = out + refs.mm(refs.mm(K, rho), K.conj().T)
    return np.asarray(out, dtype=object).view(SymNd)


def symbolic_state(I, sysname, prefix="s", trace_one=True):
    """state with symbolic Bloch-type coefficients; trace fixed to 1 through the identity coefficient"""
    d = DIMS[sysname]
    n = d * d
    xs = [I[f"{prefix}{i}"] for i in range(1, n)]
    v0 = 1 / np.sqrt(d)
    if any(isinstance(x, Sym) for x in xs):
        return SymNd([v0] + xs)
    return np.array([v0] + xs, dtype=np.float64)


def state_inputs(sysname, prefix="s", lo=-1.0, hi=1.0):
    d = DIMS[sysname]
    return [(f"{prefix}{i}", "real", lo, hi) for i in range(1, d * d)]
