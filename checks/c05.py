#!/usr/bin/env python
"""C05 -- the physical projection is Dykstra's alternating-projection scheme (translation validation of the real loop
against the textbook recurrence, the two constraint projections being uninterpreted functions)."""
from common import *
import c03
import io, contextlib

TYPES = ["state", "povm", "gate", "mprocess"]


def tiers(tier, quick, thorough):
    return quick if tier == "quick" else thorough


# concrete stand-ins for the uninterpreted projections (used for translator validation and replay only)
# Two interpretations: 0 = generic non-commuting contractions (translator validation, wiring errors), 1 = identity maps (every point
# is a fixed point, so the early-stopping branch of the loop is concretely reachable).  A counterexample of a stub-level obligation is
# an input point together with one of these interpretations; the input `standin` of the obligation records which one.
STANDIN = {"kind": 0}
STANDIN_INPUT = [("standin", "int", 0, 1)]
REPLAY_VARIANTS = [{"standin": 0}, {"standin": 1}]


def set_standin(I):
    v = I.get("standin", 0)
    STANDIN["kind"] = int(v) if (not core.CTX.active and not isinstance(v, Sym)) else 0


def _concrete_maps(n):
    rng = np.random.RandomState(12345 + n)
    A1 = rng.normal(size=(n, n)) * 0.3 / np.sqrt(n)
    b1 = rng.normal(size=n) * 0.1
    A2 = rng.normal(size=(n, n)) * 0.3 / np.sqrt(n)

    def ce(*x):
        if STANDIN["kind"] == 1:
            return list(x)
        return list(A1 @ np.array(x) + b1)

    def ci(*x):
        if STANDIN["kind"] == 1:
            return list(x)
        return list(np.maximum(A2 @ np.array(x), -0.05) + 0.01 * np.array(x))
    return ce, ci


def uf_apply(name, vec, conc):
    xs = list(flat(vec))
    if not any(isinstance(x, Sym) and not x.is_const() for x in xs):
        if not core.CTX.active:
            return np.array(conc(*[float(Sym.of(x).cval()) if isinstance(x, Sym) else float(x) for x in xs]), dtype=np.float64)
    out = [core.CTX.def_uf(name, xs, concrete=conc, index=i) for i in range(len(xs))]
    return SymNd(out)


def with_stacked(obj, vec):
    """object of the same class / flags as obj whose stacked vector is vec"""
    typ = type(obj).__name__.lower()
    c = obj.composite_system
    n = c.dim ** 2
    kw = dict(is_physicality_required=False, is_estimation_object=False, on_para_eq_constraint=obj.on_para_eq_constraint,
              on_algo_eq_constraint=obj.on_algo_eq_constraint, on_algo_ineq_constraint=obj.on_algo_ineq_constraint,
              mode_proj_order=obj.mode_proj_order, eps_proj_physical=obj.eps_proj_physical,
              eps_truncate_imaginary_part=obj.eps_truncate_imaginary_part)
    cls = type(obj)
    if typ == "state":
        return cls(c, vec, **kw)
    if typ == "povm":
        m = len(vec) // n
        return cls(c, [vec[k * n:(k + 1) * n] for k in range(m)], **kw)
    if typ == "gate":
        return cls(c, vec.reshape(n, n), **kw)
    m = len(vec) // (n * n)
    return cls(c, [vec[k * n * n:(k + 1) * n * n].reshape(n, n) for k in range(m)], shape=obj.shape, **kw)


class stubbed_projections:
    """replace the four constraint projections of a class by applications of Peq / Pineq"""

    def __init__(self, cls, n):
        self.cls = cls
        self.ce, self.ci = _concrete_maps(n)

    def __enter__(self):
        cls, ce, ci = self.cls, self.ce, self.ci
        self.saved = {k: cls.__dict__[k] for k in ("calc_proj_eq_constraint", "calc_proj_ineq_constraint",
                                                     "calc_proj_eq_constraint_with_var", "calc_proj_ineq_constraint_with_var")}
        cls.calc_proj_eq_constraint = lambda self_: with_stacked(self_, uf_apply("Peq", self_.to_stacked_vector(), ce))
        cls.calc_proj_ineq_constraint = lambda self_: with_stacked(self_, uf_apply("Pineq", self_.to_stacked_vector(), ci))

        def on_stacked(name, conc, c_sys, var, flag):
            # the library's own Dykstra loop calls the variable-level projections on the stacked vector (flag False); a caller that
            # passes the free variables instead (flag True) gets the same uninterpreted map applied through the class' own conversions
            if flag is False:
                return uf_apply(name, var, conc)
            try:
                st = cls.convert_var_to_stacked_vector(c_sys, var, on_para_eq_constraint=flag)
                return cls.convert_stacked_vector_to_var(c_sys, uf_apply(name, st, conc), on_para_eq_constraint=flag)
            except TypeError as e:
                raise core.StubMiss(f"uninterpreted projection called with on_para_eq_constraint={flag!r}: {e}")

        def eqv(c_sys, var, on_para_eq_constraint=True, **kw):
            return on_stacked("Peq", ce, c_sys, var, on_para_eq_constraint)

        def inv(c_sys, var, on_para_eq_constraint=True, **kw):
            return on_stacked("Pineq", ci, c_sys, var, on_para_eq_constraint)
        cls.calc_proj_eq_constraint_with_var = staticmethod(eqv)
        cls.calc_proj_ineq_constraint_with_var = staticmethod(inv)
        return self

    def __exit__(self, *a):
        for k, v in self.saved.items():
            setattr(self.cls, k, v)
        return False


def ref_dykstra(x0, steps, order, ce, ci):
    """textbook Dykstra: y = P1(x+p); p' = x+p-y; x' = P2(y+q); q' = y+q-x'   (P1,P2 = (eq,ineq) or (ineq,eq))"""
    n = len(x0)
    P1, P2 = (("Peq", ce), ("Pineq", ci)) if order == "eq_ineq" else (("Pineq", ci), ("Peq", ce))
    x = np.asarray(x0, dtype=object)
    p = np.zeros(n, dtype=object)
    q = np.zeros(n, dtype=object)
    hist = {"x": [x], "p": [p], "q": [q], "y": [None], "err": []}
    for k in range(steps):
        xp = x + p
        y = np.asarray(uf_apply(P1[0], xp, P1[1]), dtype=object)
        pn = xp - y
        yq = y + q
        xn = np.asarray(uf_apply(P2[0], yq, P2[1]), dtype=object)
        qn = yq - xn
        if k >= 1:
            err = 0
            for a, b in zip(p - pn, q - qn):
                err = err + a * a + b * b
        else:
            err = None
        hist["x"].append(xn); hist["p"].append(pn); hist["q"].append(qn); hist["y"].append(y); hist["err"].append(err)
        x, p, q = xn, pn, qn
    return hist


def stk(o):
    return o.to_stacked_vector() if hasattr(o, "to_stacked_vector") else o


def ob_dykstra(typ, sys, m, order, flag, level, K, hist_on, fixpoint=False, objflag=None):
    d = DIMS[sys]
    ns = c03.n_stacked(typ, d, m)
    nv = c03.n_var(typ, d, m, flag)
    ce, ci = _concrete_maps(ns)

    def run(I):
        set_standin(I)
        c = qenv.csys(sys)
        cls = c03.cls_of(typ)
        eps = I["eps"]
        with stubbed_projections(cls, ns):
            if level == "object":
                x0 = vec_of(I, "x", ns)
                obj = c03.make_obj(typ, c, x0.copy(), m, flag)
                obj._mode_proj_order = order
                obj._eps_proj_physical = eps
                with contextlib.redirect_stdout(io.StringIO()):
                    r = obj.calc_proj_physical(max_iteration=K, is_iteration_history=hist_on)
                res, hist = (r if hist_on else (r, None))
                got = res.to_stacked_vector()
                start = x0
            else:
                v = vec_of(I, "x", nv)
                # objflag: the object the routine is called on may carry ANOTHER parametrisation flag than the call's argument; the argument decides
                tmpl = c03.make_obj(typ, c, (SymNd([0.0] * ns) if nd.has_sym(v) else np.zeros(ns)), m, flag if objflag is None else objflag)
                tmpl._mode_proj_order = order
                tmpl._eps_proj_physical = eps
                with contextlib.redirect_stdout(io.StringIO()):
                    r = tmpl.calc_proj_physical_with_var(v.copy(), on_para_eq_constraint=flag, max_iteration=K, is_iteration_history=hist_on)
                res, hist = (r if hist_on else (r, None))
                start = np.array(c03.ref_stacked_from_var(typ, d, m, flag, v), dtype=object)
                got = res
            ref = ref_dykstra(start, K, order, ce, ci)
        out = []
        # number of sweeps according to the REFERENCE stopping rule (independent of the routine's own history): sweep k=0 has no test,
        # the loop stops after the first sweep k>=1 whose increment sum_j (dp_j^2 + dq_j^2) is < eps, and after sweep K-1 at the latest.
        # (the comparisons fork the harness; on a path where the routine decided differently the claims below fail)
        errs = ref["err"]
        steps = K
        for k in range(1, K):
            if k == K - 1 or bool(SBool.of(errs[k] < eps)):
                steps = k + 1
                break
        if K == 1:
            steps = 1
        expx = ref["x"][steps]
        if level == "var":
            expx = c03.cls_of(typ).convert_stacked_vector_to_var(c, SymNd(list(expx)) if nd.has_sym(expx) else np.array(list(expx), dtype=float), on_para_eq_constraint=flag)
        out.append(Eq("returned point == reference Dykstra iterate at the reference stopping sweep", got, np.array(list(flat(expx)), dtype=object), 1e-9))
        if hist is None:
            return out
        for key in ("x", "p", "q", "y"):
            out.append(Holds(f"history[{key}] has one entry per executed sweep plus the start", len(hist[key]) == steps + 1))
            for j in range(min(steps + 1, len(hist[key]))):
                if key == "y" and j == 0:
                    out.append(Holds("history y[0] is None", hist["y"][0] is None))
                    continue
                out.append(Eq(f"history[{key}][{j}] == reference", stk(hist[key][j]), np.array(list(ref[key][j]), dtype=object), 1e-9))
        out.append(Holds("history[error_value] has one entry per executed sweep", len(hist["error_value"]) == steps))
        for j in range(min(steps, len(hist["error_value"]))):
            if j == 0:
                out.append(Holds("error_value[0] is None", hist["error_value"][0] is None))
            else:
                out.append(Eq(f"error_value[{j}] == sum (dp^2+dq^2)", hist["error_value"][j], ref["err"][j], 1e-9))
        out.append(Eq("last history x == returned point", stk(hist["x"][-1]), res.to_stacked_vector() if level == "object" else np.array(list(ref["x"][steps]), dtype=object), 1e-9))
        return out

    n_in = ns if level == "object" else nv
    ob = FnOb(reals("x", n_in, -100.0, 100.0) + [("eps", "real", 1e-14, 1e-6)] + STANDIN_INPUT, run, max_paths=200,
              expect_nonlinear=True, tv_points=2, replay_variants=REPLAY_VARIANTS,
              stubs=["calc_proj_eq_constraint / calc_proj_ineq_constraint (object and variable level): uninterpreted functions Peq, Pineq"],
              outside=["convergence speed and accuracy at termination", "that the limit is the nearest physical point (Boyle-Dykstra, given C04)",
                       "max_iteration beyond the unrolled K"])
    return ob


def ob_fixpoint(typ, sys, m, order, flag, level, K):
    """with the extra assumption that both projections fix the start point (already physical input) the routine returns it"""
    d = DIMS[sys]
    ns = c03.n_stacked(typ, d, m)
    nv = c03.n_var(typ, d, m, flag)
    ce, ci = _concrete_maps(ns)

    def start_of(I):
        if level == "object":
            return [I[f"x{i}"] for i in range(ns)]
        v = vec_of(I, "x", nv)
        return list(c03.ref_stacked_from_var(typ, d, m, flag, v))

    def fix_assumption(I):
        """Peq(x0) = x0 and Pineq(x0) = x0, imposed by rewriting the uninterpreted applications at x0"""
        x0 = start_of(I)
        if not any(isinstance(x, Sym) for x in x0):
            if STANDIN["kind"] == 1:
                return                          # the identity stand-ins fix every point
            raise core.AssumptionFailed()       # the generic concrete stand-ins do not fix arbitrary points
        for name in ("Peq", "Pineq"):
            for i in range(len(x0)):
                core.CTX.seed_uf(name, x0, x0[i], index=i)

    def run(I):
        set_standin(I)
        c = qenv.csys(sys)
        cls = c03.cls_of(typ)
        eps = I["eps"]
        fix_assumption(I)
        with stubbed_projections(cls, ns):
            if level == "object":
                x0 = vec_of(I, "x", ns)
                obj = c03.make_obj(typ, c, x0.copy(), m, flag)
                obj._mode_proj_order = order
                obj._eps_proj_physical = eps
                with contextlib.redirect_stdout(io.StringIO()):
                    res, hist = obj.calc_proj_physical(max_iteration=K, is_iteration_history=True)
                return [Eq("already-physical input is returned unchanged", res.to_stacked_vector(), x0, 0.0),
                        Holds("stops after the second sweep", len(hist["x"]) - 1 == min(2, K))]
            v = vec_of(I, "x", nv)
            tmpl = c03.make_obj(typ, c, (SymNd([0.0] * ns) if nd.has_sym(v) else np.zeros(ns)), m, flag)
            tmpl._mode_proj_order = order
            tmpl._eps_proj_physical = eps
            with contextlib.redirect_stdout(io.StringIO()):
                res, hist = tmpl.calc_proj_physical_with_var(v.copy(), on_para_eq_constraint=flag, max_iteration=K, is_iteration_history=True)
            return [Eq("already-physical input is returned unchanged", res, v, 0.0),
                    Holds("stops after the second sweep", len(hist["x"]) - 1 == min(2, K))]
    n_in = ns if level == "object" else nv
    return FnOb(reals("x", n_in, -100.0, 100.0) + [("eps", "real", 1e-14, 1e-6)] + STANDIN_INPUT, run, max_paths=50, tv_points=0,
                replay_variants=[{"standin": 1}],
                stubs=["Peq, Pineq uninterpreted, assumed to fix the start point"], note="translator validation skipped: the assumption constrains the uninterpreted functions")


def ob_objvar(typ, sys, m, order, flag, K):
    """object-level and variable-level routines return the same point (same uninterpreted projections, flag False: arbitrary
    start; flag True: start generated from a variable vector)"""
    d = DIMS[sys]
    ns = c03.n_stacked(typ, d, m)
    nv = c03.n_var(typ, d, m, flag)

    def run(I):
        set_standin(I)
        c = qenv.csys(sys)
        cls = c03.cls_of(typ)
        eps = I["eps"]
        v = vec_of(I, "x", nv)
        with stubbed_projections(cls, ns):
            tmpl = c03.make_obj(typ, c, (SymNd([0.0] * ns) if nd.has_sym(v) else np.zeros(ns)), m, flag)
            tmpl._mode_proj_order = order
            tmpl._eps_proj_physical = eps
            obj = tmpl.generate_from_var(v, mode_proj_order=order)
            with contextlib.redirect_stdout(io.StringIO()):
                r1 = obj.calc_proj_physical(max_iteration=K)
                r2 = tmpl.calc_proj_physical_with_var(v.copy(), on_para_eq_constraint=flag, max_iteration=K)
                f = tmpl.func_calc_proj_physical(mode_proj_order=order, max_iteration=K)
                r3 = f(v.copy())
                g = tmpl.func_calc_proj_physical_with_var(mode_proj_order=order, max_iteration=K)
                r4 = g(v.copy())
        return [Eq("object-level.to_var() == variable-level", r1.to_var(), r2, 1e-9),
                Eq("func_calc_proj_physical closure == variable-level", r3, r2, 1e-9),
                Eq("func_calc_proj_physical_with_var closure == variable-level", r4, r2, 1e-9)]
    return FnOb(reals("x", nv, -100.0, 100.0) + [("eps", "real", 1e-14, 1e-6)] + STANDIN_INPUT, run, max_paths=300, expect_nonlinear=True,
                replay_variants=REPLAY_VARIANTS, stubs=["Peq, Pineq uninterpreted"])


def obligations(tier):
    out = []
    K = 3 if tier == "quick" else 5
    for typ in TYPES:
        for s in tiers(tier, ["Q1"], ["Q1", "T1"]):
            for m in ([0] if typ in ("state", "gate") else tiers(tier, [2], [2, 3])):
                d = DIMS[s]
                if c03.n_stacked(typ, d, m) > (40 if tier == "quick" else 100):
                    continue
                for order in ("eq_ineq", "ineq_eq"):
                    for flag in (False, True):
                        for level in ("object", "var"):
                            out += specs("C05.dykstra", [{"typ": typ, "sys": s, "m": m, "order": order, "flag": flag, "level": level, "K": K, "hist_on": True}], ob_dykstra, K)
                            out += specs("C05.fixpoint", [{"typ": typ, "sys": s, "m": m, "order": order, "flag": flag, "level": level, "K": K}], ob_fixpoint, 1)
                        out += specs("C05.objvar", [{"typ": typ, "sys": s, "m": m, "order": order, "flag": flag, "K": K}], ob_objvar, K)
                    out += specs("C05.dykstra", [{"typ": typ, "sys": s, "m": m, "order": order, "flag": False, "level": "object", "K": 2, "hist_on": True}], ob_dykstra, 1)
                    out += specs("C05.dykstra", [{"typ": typ, "sys": s, "m": m, "order": order, "flag": False, "level": "var", "K": 1, "hist_on": True}], ob_dykstra, 1)
                    if order == "eq_ineq":
                        for flag in (False, True):
                            out += specs("C05.dykstra", [{"typ": typ, "sys": s, "m": m, "order": order, "flag": flag, "level": "var", "K": 2, "hist_on": True, "objflag": not flag}], ob_dykstra, 1)
    return out


if __name__ == "__main__":
    sys.exit(main("C05", "c05", level="translation_validation"))
