#!/usr/bin/env python
"""C04 -- equality and inequality projections are nearest-point projections."""
from common import *
from symq import stubs
import c03
import scipy.linalg

BOX = 1000.0
TYPES = ["state", "povm", "gate", "mprocess"]


def tiers(tier, quick, thorough):
    return quick if tier == "quick" else thorough


def constraint(typ, sysname, m):
    """the mathematical equality constraint C x = b on the stacked parameters, from the definitions
    (unit trace / elements sum to identity / trace preserving / trace-preserving sum), built on the reference basis"""
    B = basis_of(sysname)
    d = DIMS[sysname]
    n = d * d
    trB = np.array([np.trace(b) for b in B])
    assert np.max(np.abs(trB.imag)) < 1e-12
    trB = trB.real
    if typ == "state":
        C = trB.reshape(1, n)
        b = np.array([1.0])
    elif typ == "povm":
        # sum_k vec_k = vec(I)
        C = np.hstack([np.eye(n)] * m)
        b = np.array([np.trace(bb.conj().T @ np.eye(d)) for bb in B]).real
    elif typ == "gate":
        # for every b: sum_a hs[a,b] Tr(B_a) = Tr(B_b);  hs flattened row-major: index a*n+b
        C = np.zeros((n, n * n))
        for bcol in range(n):
            for a in range(n):
                C[bcol, a * n + bcol] = trB[a]
        b = trB.copy()
    else:
        Cg, bg = constraint("gate", sysname, 0)
        C = np.hstack([Cg] * m)
        b = bg
    return C, b


def proj_eq_obj(typ, obj):
    return obj.calc_proj_eq_constraint()


def proj_var(typ, kind, c, var, flag, **kw):
    cls = c03.cls_of(typ)
    f = getattr(cls, f"calc_proj_{kind}_constraint_with_var")
    return f(c, var, on_para_eq_constraint=flag, **kw)


def snapshot(a):
    return [x for x in flat(a)]


def ob_eq(typ, sys, m):
    """object-level equality projection for arbitrary x: feasible, residual orthogonal to the constraint's null space
    (=> nearest point), idempotent, argument unchanged; variable-level form agrees (flag False) / is the identity (flag True)"""
    d = DIMS[sys]
    ns = c03.n_stacked(typ, d, m)
    C, b = constraint(typ, sys, m)
    N = scipy.linalg.null_space(C)          # columns span {y : C y = 0}

    def run(I):
        c = qenv.csys(sys)
        x = vec_of(I, "x", ns)
        snap = snapshot(x)
        out = []
        for flag in (False, True):
            obj = c03.make_obj(typ, c, x.copy(), m, flag)
            before = snapshot(obj.to_stacked_vector())
            P = proj_eq_obj(typ, obj)
            px = P.to_stacked_vector()
            out.append(Eq(f"[flag={flag}] C P(x) == b (constraint holds exactly)", refs.mm(C, np.asarray(px, dtype=object).reshape(-1, 1)).reshape(-1), b))
            r = np.asarray(x, dtype=object) - np.asarray(px, dtype=object)
            out.append(Eq(f"[flag={flag}] x - P(x) orthogonal to the constraint's null space", refs.mm(N.T, r.reshape(-1, 1)).reshape(-1), np.zeros(N.shape[1]), 1e-7))
            PP = proj_eq_obj(typ, P)
            out.append(Eq(f"[flag={flag}] idempotent", PP.to_stacked_vector(), px))
            out.append(Eq(f"[flag={flag}] operand unchanged", np.array(snapshot(obj.to_stacked_vector()), dtype=object), np.array(before, dtype=object), 0.0))
            out.append(Holds(f"[flag={flag}] flags kept", P.on_para_eq_constraint == flag and type(P) is type(obj)))
        # variable level, flag False: the same map on the stacked vector, argument untouched
        arg = x.copy()
        asnap = snapshot(arg)
        pv = proj_var(typ, "eq", c, arg, False)
        P0 = proj_eq_obj(typ, c03.make_obj(typ, c, x.copy(), m, False)).to_stacked_vector()
        out.append(Eq("variable-level (flag False) == object-level", pv, P0))
        out.append(Eq("variable-level (flag False): argument unchanged", np.array(snapshot(arg), dtype=object), np.array(asnap, dtype=object), 0.0))
        out.append(Eq("harness input unchanged", np.array(snapshot(x), dtype=object), np.array(snap, dtype=object), 0.0))
        return out
    return FnOb(reals("x", ns, -BOX, BOX), run)


def ob_eq_var_flag(typ, sys, m):
    """variable level with the constraint built into the parametrisation: the projection is the identity, argument untouched,
    and it agrees with the object-level projection of the generated object"""
    d = DIMS[sys]
    nv = c03.n_var(typ, d, m, True)
    ns = c03.n_stacked(typ, d, m)

    def run(I):
        c = qenv.csys(sys)
        v = vec_of(I, "v", nv)
        arg = v.copy()
        asnap = snapshot(arg)
        pv = proj_var(typ, "eq", c, arg, True)
        out = [Eq("projection of a variable vector (flag True) is the identity", pv, v),
               Eq("argument unchanged", np.array(snapshot(arg), dtype=object), np.array(asnap, dtype=object), 0.0)]
        tmpl = c03.make_obj(typ, c, (SymNd([0.0] * ns) if nd.has_sym(v) else np.zeros(ns)), m, True)
        obj = tmpl.generate_from_var(v)
        P = proj_eq_obj(typ, obj)
        out.append(Eq("object-level projection fixes objects on the constraint", P.to_stacked_vector(), obj.to_stacked_vector()))
        out.append(Eq("object-level == variable-level", P.to_var(), pv))
        return out
    return FnOb(reals("v", nv, -BOX, BOX), run)


def ob_eq_fix(typ, sys, m):
    """feasible points x = x_p + N z (N spans the null space of the mathematical constraint) are left unchanged"""
    d = DIMS[sys]
    ns = c03.n_stacked(typ, d, m)
    C, b = constraint(typ, sys, m)
    N = scipy.linalg.null_space(C)
    xp = np.linalg.lstsq(C, b, rcond=None)[0]
    nz = N.shape[1]

    def run(I):
        c = qenv.csys(sys)
        z = vec_of(I, "z", nz)
        x = refs.mm(N, np.asarray(z, dtype=object).reshape(-1, 1)).reshape(-1) + xp
        x = x if nd.has_sym(x) else nd.to_concrete(x).astype(np.float64)
        obj = c03.make_obj(typ, c, x.copy(), m, False)
        P = proj_eq_obj(typ, obj)
        return [Eq("P(x) == x for feasible x", P.to_stacked_vector(), x, 1e-8)]
    return FnOb(reals("z", nz, -100.0, 100.0), run)


# ---- inequality projections --------------------------------------------------------------------------
def frames_for(typ, d, m, vname):
    dd = d if typ in ("state", "povm") else d * d
    V = dict(refs.unitary_library(dd))[vname]
    k = 1 if typ in ("state", "gate") else m
    return dd, [V, V.conj().T.copy(), V @ V, V][:k]


def spectral_object(typ, sysname, m, I, Vs, dd, flag, tag=""):
    """object whose operator(s) are V diag(w) V^dagger; returns (object, list of eigenvalue lists, list of matrices)"""
    c = qenv.csys(sysname)
    B = basis_of(sysname)
    d = DIMS[sysname]
    n = d * d
    ws, mats, parts = [], [], []
    for k, V in enumerate(Vs):
        w = [I[f"w{k}_{i}"] for i in range(dd)]
        A = stubs.spectral(w, V, f"{tag}A{k}")
        ws.append(w)
        mats.append(A)
        if typ in ("state", "povm"):
            parts.append(refs.ref_vec(A, B).real)
        else:
            parts.append(refs.ref_hs_from_choi(A, B).real)
    if typ == "state":
        obj = mk_state(c, parts[0], on_para_eq_constraint=flag)
    elif typ == "povm":
        obj = mk_povm(c, parts, on_para_eq_constraint=flag)
    elif typ == "gate":
        obj = mk_gate(c, parts[0], on_para_eq_constraint=flag)
    else:
        obj = mk_mprocess(c, parts, on_para_eq_constraint=flag)
    return obj, ws, mats


def clipped_ref(typ, sysname, ws, Vs):
    B = basis_of(sysname)
    out = []
    for w, V in zip(ws, Vs):
        wp = [core.smax(x, 0.0) for x in w]
        A = stubs.spectral(wp, V, "clip")
        if typ in ("state", "povm"):
            out.append(refs.ref_vec(A, B).real)
        else:
            out.append(refs.ref_hs_from_choi(A, B).real.reshape(-1))
    return np.concatenate([np.asarray(p, dtype=object).reshape(-1) for p in out])


def w_inputs(k, dd, lo=-BOX, hi=BOX):
    out = []
    for j in range(k):
        out += [(f"w{j}_{i}", "real", lo, hi) for i in range(dd)]
    return out


def w_assume(I, k, dd):
    out = []
    for j in range(k):
        out += stubs.ascending([I[f"w{j}_{i}"] for i in range(dd)])
    return out


def ob_ineq(typ, sys, m, vname):
    """inequality projection of an object given by its spectral decomposition(s): result == vec of V max(w,0) V^dagger,
    idempotent, fixes PSD inputs, operand unchanged, variable-level (flag False) agrees and leaves its argument alone"""
    d = DIMS[sys]
    dd, Vs = frames_for(typ, d, m, vname)
    k = len(Vs)

    def run(I):
        c = qenv.csys(sys)
        obj, ws, mats = spectral_object(typ, sys, m, I, Vs, dd, False)
        before = snapshot(obj.to_stacked_vector())
        P = obj.calc_proj_ineq_constraint()
        px = P.to_stacked_vector()
        ref = clipped_ref(typ, sys, ws, Vs)
        out = [Eq("P(x) == vec(V max(w,0) V†)", px, ref)]
        # the result carries the operand's own configuration (the operand has on_para_eq_constraint=False while on_algo_eq_constraint keeps
        # its default True, so a mix-up of the two shows)
        for attr in ("on_para_eq_constraint", "on_algo_eq_constraint", "on_algo_ineq_constraint", "is_estimation_object", "mode_proj_order"):
            out.append(Holds(f"result.{attr} == operand.{attr}", getattr(P, attr) == getattr(obj, attr)))
        out.append(Eq("result.to_var() == its stacked vector (flag False)", P.to_var(), px, 0.0))
        out.append(Eq("operand unchanged", np.array(snapshot(obj.to_stacked_vector()), dtype=object), np.array(before, dtype=object), 0.0))
        # fixes inputs whose spectrum is already non-negative
        allpos = s_and([SBool.of(x >= 0) for w in ws for x in w])
        d0 = np.asarray(px, dtype=object) - np.asarray(obj.to_stacked_vector(), dtype=object)
        out.append(Holds("PSD input => unchanged", implies(allpos, s_and([SBool.of(Sym.of(e) <= 1e-8) & SBool.of(Sym.of(e) >= -1e-8) for e in d0.reshape(-1)]))))
        # variable level (flag False)
        arg = obj.to_stacked_vector().copy()
        asnap = snapshot(arg)
        pv = proj_var(typ, "ineq", c, arg, False)
        out.append(Eq("variable-level (flag False) == object-level", pv, px))
        out.append(Eq("variable-level: argument unchanged", np.array(snapshot(arg), dtype=object), np.array(asnap, dtype=object), 0.0))
        # idempotent: the projected object has the spectral decomposition V max(w,0) V†
        for j, (w, V) in enumerate(zip(ws, Vs)):
            stubs.spectral([core.smax(x, 0.0) for x in w], V, f"P{j}")
        PP = P.calc_proj_ineq_constraint()
        out.append(Eq("idempotent", PP.to_stacked_vector(), px))
        return out
    # concrete spectra with repeated eigenvalues, tried when a model of a degenerate path is replayed (cf. C18: whether a general
    # eigen-solver returns a non-orthogonal basis depends on the data)
    def tie_variant(vals):
        return {f"w{j}_{i}": vals[i % len(vals)] if i < dd else 0.0 for j in range(k) for i in range(dd)}
    variants = [{}]
    for pat in ([-0.3] + [0.7] * (dd - 1), [-1.0] * (dd - 2) + [0.5, 0.5], [0.3] * (dd - 1) + [0.9]):
        variants.append({f"w{j}_{i}": float(pat[i]) for j in range(k) for i in range(dd)})
    return FnOb(w_inputs(k, dd), run, assume=lambda I: w_assume(I, k, dd), max_paths=64, replay_variants=variants,
                stubs=["np.linalg.eigh: spectral parametrisation, frames derived from " + vname],
                outside=["LAPACK's eigenvector choice for degenerate spectra (any orthonormal choice gives the same projector)",
                         "IEEE rounding of the imaginary-part residue against eps_truncate_imaginary_part at |x|~1e3"])


def ob_ineq_flag(typ, sys, m):
    """flag True, arbitrary variable vector v: variable-level ineq projection == object-level projection of
    generate_from_var(v) (both sides are the same function of the same eigen-decomposition: eigh is uninterpreted here)"""
    d = DIMS[sys]
    nv = c03.n_var(typ, d, m, True)
    ns = c03.n_stacked(typ, d, m)

    def run(I):
        c = qenv.csys(sys)
        stubs.uf_mode(True)
        v = vec_of(I, "v", nv)
        tmpl = c03.make_obj(typ, c, (SymNd([0.0] * ns) if nd.has_sym(v) else np.zeros(ns)), m, True)
        obj = tmpl.generate_from_var(v)
        P = obj.calc_proj_ineq_constraint()
        arg = v.copy()
        asnap = snapshot(arg)
        pv = proj_var(typ, "ineq", c, arg, True)
        out = [Eq("variable-level (flag True) == object-level.to_var()", pv, P.to_var(), 1e-7),
               Eq("argument unchanged", np.array(snapshot(arg), dtype=object), np.array(asnap, dtype=object), 0.0)]
        f = obj.func_calc_proj_ineq_constraint_with_var()
        out.append(Eq("func_calc_proj_ineq_constraint_with_var closure == static method", f(v.copy()), pv, 1e-7))
        g = obj.func_calc_proj_ineq_constraint()
        out.append(Eq("func_calc_proj_ineq_constraint closure == object-level", g(v.copy()), P.to_var(), 1e-7))
        return out
    return FnOb(reals("v", nv, -10.0, 10.0), run, max_paths=64, expect_nonlinear=True,
                stubs=["np.linalg.eigh: uninterpreted (congruence only): same matrix -> same symbolic decomposition"])


def ob_ineq_vi(sys, vname):
    """variational inequality for the State projection: <x - P(x), y - P(x)> <= 0 for every comparison point y whose
    matrix Y satisfies diag(V† Y V) >= 0 (a superset of the PSD cone) -- decided as a polynomial inequality"""
    d = DIMS[sys]
    V = dict(refs.unitary_library(d))[vname]
    B = basis_of(sys)
    n = d * d

    def yinputs():
        return c02h_inputs("y", d)

    def run(I):
        c = qenv.csys(sys)
        w = [I[f"w0_{i}"] for i in range(d)]
        A = stubs.spectral(w, V, "A")
        x = refs.ref_vec(A, B).real
        st = mk_state(c, x)
        px = st.calc_proj_ineq_constraint().vec
        Y = herm(I, "y", d)
        y = refs.ref_vec(Y, B).real
        ip = 0
        for i in range(n):
            ip = ip + (Sym.of(x[i]) - Sym.of(px[i])) * (Sym.of(y[i]) - Sym.of(px[i]))
        return [Holds("<x-P(x), y-P(x)> <= 1e-6", SBool.of(Sym.of(ip) <= 1e-6))]

    def assume(I):
        w = [I[f"w0_{i}"] for i in range(d)]
        Y = herm(I, "y", d)
        M = refs.mm(refs.mm(refs.dag(V), Y), V)
        return stubs.ascending(w) + [SBool.of(Sym.of(M[i, i]).re_sym() >= 0) for i in range(d)]
    return FnOb(w_inputs(1, d, -10.0, 10.0) + c02h_inputs("y", d), run, assume=assume, max_paths=32, expect_nonlinear=True,
                exact_timeout_ms=120000, stubs=["np.linalg.eigh: spectral parametrisation, frame " + vname])


def c02h_inputs(prefix, d, lo=-10.0, hi=10.0):
    out = [(f"{prefix}d{i}", "real", lo, hi) for i in range(d)]
    for i in range(d):
        for j in range(i + 1, d):
            out += [(f"{prefix}r{i}_{j}", "real", lo, hi), (f"{prefix}i{i}_{j}", "real", lo, hi)]
    return out


def herm(I, prefix, d):
    M = np.zeros((d, d), dtype=object)
    for i in range(d):
        M[i, i] = I[f"{prefix}d{i}"] + 0j
    for i in range(d):
        for j in range(i + 1, d):
            z = I[f"{prefix}r{i}_{j}"] + 1j * I[f"{prefix}i{i}_{j}"]
            M[i, j] = z
            M[j, i] = z.conjugate()
    if any(type(x) is Sym for x in M.reshape(-1)):
        return M.view(SymNd)
    return M.astype(np.complex128)


def ob_closures(typ, sys, m):
    """func_calc_proj_eq_constraint(_with_var) closures handed to the optimisers (var -> var) are the same maps as the methods"""
    d = DIMS[sys]
    ns = c03.n_stacked(typ, d, m)

    def run(I):
        c = qenv.csys(sys)
        out = []
        for tflag in (False, True):
            for aflag in (None, False, True):
                # the closure's explicit on_para_eq_constraint argument overrides the object's own flag; None keeps it
                flag = tflag if aflag is None else aflag
                tag = f"[object flag={tflag}, argument={aflag}]"
                nv = c03.n_var(typ, d, m, flag)
                v = vec_of(I, "x", nv)
                tmpl = c03.make_obj(typ, c, (SymNd([0.0] * ns) if nd.has_sym(v) else np.zeros(ns)), m, tflag)
                obj = tmpl.generate_from_var(v, on_para_eq_constraint=flag)
                f = tmpl.func_calc_proj_eq_constraint(aflag) if aflag is not None else tmpl.func_calc_proj_eq_constraint()
                out.append(Eq(f"{tag} func_calc_proj_eq_constraint()(var) == obj.calc_proj_eq_constraint().to_var()",
                              f(v.copy()), obj.calc_proj_eq_constraint().to_var(), 0.0))
                g = tmpl.func_calc_proj_eq_constraint_with_var(aflag) if aflag is not None else tmpl.func_calc_proj_eq_constraint_with_var()
                out.append(Eq(f"{tag} func_calc_proj_eq_constraint_with_var()(var) == static method",
                              g(v.copy()), proj_var(typ, "eq", c, v.copy(), flag), 0.0))
                out.append(Eq(f"{tag} object-level closure == variable-level closure", f(v.copy()), g(v.copy())))
        return out
    return FnOb(reals("x", ns, -BOX, BOX), run)


def obligations(tier):
    out = []
    for typ in TYPES:
        for s in tiers(tier, ["Q1", "T1"], ["Q1", "T1", "Q2", "QT"]):
            for m in ([0] if typ in ("state", "gate") else tiers(tier, [2, 3], [2, 3, 4, 5])):
                d = DIMS[s]
                if c03.n_stacked(typ, d, m) > (200 if tier == "quick" else 1300):
                    continue
                cfg = {"typ": typ, "sys": s, "m": m}
                out += specs("C04.eq", [cfg], ob_eq, 3)
                out += specs("C04.eq.var_flag", [cfg], ob_eq_var_flag, 1)
                out += specs("C04.eq.fix", [cfg], ob_eq_fix, 1)
                if d <= 3:
                    out += specs("C04.closures", [cfg], ob_closures, 1)
    # measurement processes with a multi-axis outcome shape (number of outcomes != shape[0])
    for shape in tiers(tier, [[1, 2], [2, 2]], [[1, 2], [2, 1], [2, 2], [3, 2]]):
        m = shape[0] * shape[1]
        cfg = {"typ": "mprocess", "sys": "Q1", "m": m, "shape": shape}
        out += specs("C04.eq", [cfg], c03.with_shape(ob_eq), 3)
        out += specs("C04.eq.fix", [cfg], c03.with_shape(ob_eq_fix), 1)
    for typ in TYPES:
        for s in tiers(tier, ["Q1", "T1"], ["Q1", "T1", "Q2"]):
            d = DIMS[s]
            dd = d if typ in ("state", "povm") else d * d
            if dd > (4 if tier == "quick" else 9):
                continue
            names = [nm for nm, _ in refs.unitary_library(dd)]
            for m in ([0] if typ in ("state", "gate") else tiers(tier, [2], [2, 3])):
                if tier == "quick" and typ == "povm" and s == "T1":
                    continue
                if typ in ("gate", "mprocess") and s != "Q1":
                    continue        # 9x9 / 16x16 Choi matrices behind element-wise truncation: the spectral stub cannot be matched within budget (outside, DESIGN.md 7.6)
                for vn in (names[-1:] if tier == "quick" else names):
                    out += specs("C04.ineq", [{"typ": typ, "sys": s, "m": m, "vname": vn}], ob_ineq, 5)
                if dd <= 4:
                    out += specs("C04.ineq.flag", [{"typ": typ, "sys": s, "m": m}], ob_ineq_flag, 5)
    # the variational inequality is a genuinely non-linear query (seconds to minutes in nlsat): thorough tier only
    out += specs("C04.ineq.vi", [{"sys": "Q1", "vname": v} for v in tiers(tier, [], ["id"])], ob_ineq_vi, 8)
    return out


if __name__ == "__main__":
    sys.exit(main("C04", "c04"))
