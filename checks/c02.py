#!/usr/bin/env python
"""C02 -- all representations of one object denote the same operator."""
from common import *
import itertools

BOX = 1000.0


def tiers(tier, quick, thorough):
    return quick if tier == "quick" else thorough


# ---------------------------------------------------------------------------------------
def ob_csys_basis(sys):
    """quara's basis table of the configuration equals the textbook table (concrete identity)"""
    def run(I):
        c = qenv.csys(sys)
        got = np.array(qenv.dense_basis(c))
        ref = np.array(refs.ref_basis(sys))
        sp = [np.asarray(b.todense()) if hasattr(b, "todense") else np.asarray(b) for b in c.basis()]
        return [Eq("basis==textbook", got, ref, 1e-12),
                Eq("basis_T_sparse", c.basis_T_sparse.toarray(), np.array([b.flatten() for b in ref]).T, 1e-12),
                Eq("basisconjugate_sparse", c.basisconjugate_sparse.toarray(), np.array([b.conj().flatten() for b in ref]), 1e-12)]
    return FnOb([], run, tv_points=0, note="no symbolic input: configuration sanity")


def ob_state_dm(sys):
    d = DIMS[sys]
    n = d * d
    B = basis_of(sys)

    def run(I):
        from quara.objects import state as S
        c = qenv.csys(sys)
        v = vec_of(I, "v", n)
        st = mk_state(c, v)
        dm1 = st.to_density_matrix()
        dm2 = st.to_density_matrix_with_sparsity()
        dm3 = S.to_density_matrix_from_vec(c, v)
        ref = refs.ref_matrix(v, B)
        back = S.to_vec_from_density_matrix_with_sparsity(c, dm2)
        return [Eq("to_density_matrix==ref", dm1, ref), Eq("with_sparsity==ref", dm2, ref), Eq("from_vec==ref", dm3, ref),
                Eq("vec_from_dm(dm(vec))==vec", back, v)]
    return FnOb(reals("v", n, -BOX, BOX), run)


def ob_state_dm_inv(sys):
    """inverse direction on arbitrary Hermitian matrices: dm(vec(M)) == M, vec(M) == Tr(B_i^† M)"""
    d = DIMS[sys]
    B = basis_of(sys)
    names = []

    def inputs():
        out = []
        for i in range(d):
            out.append((f"md{i}", "real", -BOX, BOX))
        for i in range(d):
            for j in range(i + 1, d):
                out += [(f"mr{i}_{j}", "real", -BOX, BOX), (f"mi{i}_{j}", "real", -BOX, BOX)]
        return out

    def herm(I):
        M = np.zeros((d, d), dtype=object)
        for i in range(d):
            M[i, i] = I[f"md{i}"] + 0j
        for i in range(d):
            for j in range(i + 1, d):
                z = I[f"mr{i}_{j}"] + 1j * I[f"mi{i}_{j}"]
                M[i, j] = z
                M[j, i] = z.conjugate()
        if any(type(x) is Sym for x in M.reshape(-1)):
            return M.view(SymNd)
        return M.astype(np.complex128)

    def run(I):
        from quara.objects import state as S
        c = qenv.csys(sys)
        M = herm(I)
        v = S.to_vec_from_density_matrix_with_sparsity(c, M)
        ref = refs.ref_vec(M, B)
        M2 = S.to_density_matrix_from_vec(c, v)
        return [Eq("vec==Tr(B†M)", v, ref), Eq("dm(vec(M))==M", M2, M)]
    return FnOb(inputs(), run)


def ob_povm_mats(sys, m):
    d = DIMS[sys]
    n = d * d
    B = basis_of(sys)

    def run(I):
        from quara.objects import povm as P
        c = qenv.csys(sys)
        vecs = [vec_of(I, f"v{k}_", n) for k in range(m)]
        pv = mk_povm(c, vecs)
        ms1 = pv.matrices()
        ms2 = pv.matrices_with_sparsity()
        out = []
        for k in range(m):
            ref = refs.ref_matrix(vecs[k], B)
            out.append(Eq(f"matrices[{k}]==ref", ms1[k], ref))
            out.append(Eq(f"matrices_with_sparsity[{k}]==ref", ms2[k], ref))
            out.append(Eq(f"matrix({k})==ref", pv.matrix(k), ref))
        back = P.to_vecs_from_matrices_with_sparsity(c, ms2)
        for k in range(m):
            out.append(Eq(f"vecs_from_matrices[{k}]==vec", back[k], vecs[k]))
            out.append(Eq(f"vec_from_matrix[{k}]==vec", P.to_vec_from_matrix_with_sparsity(c, np.asarray(ms1[k])), vecs[k]))
        for flag in (True, False):
            var = P.to_var_from_matrices(c, ms2, on_para_eq_constraint=flag)
            ms3 = P.to_matrices_from_var(c, var, on_para_eq_constraint=flag) if not flag else None
            expect = np.concatenate([np.asarray(v, dtype=object) for v in (vecs[:-1] if flag else vecs)])
            out.append(Eq(f"to_var_from_matrices(flag={flag})", var, expect))
            if ms3 is not None:
                for k in range(m):
                    out.append(Eq(f"matrices_from_var[{k}]", ms3[k], refs.ref_matrix(vecs[k], B)))
        return out
    inp = []
    for k in range(m):
        inp += reals(f"v{k}_", n, -BOX, BOX)
    return FnOb(inp, run)


def ob_povm_matrix_with_sparsity(sys, m):
    d = DIMS[sys]
    n = d * d
    B = basis_of(sys)

    def run(I):
        c = qenv.csys(sys)
        vecs = [vec_of(I, f"v{k}_", n) for k in range(m)]
        pv = mk_povm(c, vecs)
        return [Eq(f"matrix_with_sparsity({k})==ref", pv.matrix_with_sparsity(k), refs.ref_matrix(vecs[k], B)) for k in range(m)]
    inp = []
    for k in range(m):
        inp += reals(f"v{k}_", n, -BOX, BOX)
    return FnOb(inp, run)


def ob_gate_choi(sys):
    d = DIMS[sys]
    n = d * d
    B = basis_of(sys)

    def run(I):
        from quara.objects import gate as G
        c = qenv.csys(sys)
        hs = mat_of(I, "h", n, n)
        g = mk_gate(c, hs)
        ref = refs.ref_choi(hs, B)
        c1 = g.to_choi_matrix()
        c2 = g.to_choi_matrix_with_dict()
        c3 = g.to_choi_matrix_with_sparsity()
        out = [Eq("to_choi_from_hs==ref", c1, ref), Eq("to_choi_with_dict==ref", c2, ref), Eq("to_choi_with_sparsity==ref", c3, ref)]
        out.append(Eq("hs_from_choi(choi)==hs", G.to_hs_from_choi(c, c3), hs))
        out.append(Eq("hs_from_choi_with_dict(choi)==hs", G.to_hs_from_choi_with_dict(c, c3), hs))
        out.append(Eq("hs_from_choi_with_sparsity(choi)==hs", G.to_hs_from_choi_with_sparsity(c, c3), hs))
        return out
    return FnOb(reals("h", n * n, -BOX, BOX), run)


def _herm_inputs(prefix, d, lo, hi):
    out = [(f"{prefix}d{i}", "real", lo, hi) for i in range(d)]
    for i in range(d):
        for j in range(i + 1, d):
            out += [(f"{prefix}r{i}_{j}", "real", lo, hi), (f"{prefix}i{i}_{j}", "real", lo, hi)]
    return out


def _herm(I, prefix, d):
    M = np.zeros((d, d), dtype=object)
    for i in range(d):
        M[i, i] = I[f"{prefix}d{i}"] + 0j
    for i in range(d):
        for j in range(i + 1, d):
            z = I[f"{prefix}r{i}_{j}"] + 1j * I[f"{prefix}i{i}_{j}"]
            M[i, j] = z
            M[j, i] = z.conjugate()
    if any(type(x) is Sym for x in M.reshape(-1)):
        return M.view(SymNd)
    return M.astype(np.complex128)


def ob_gate_hs_from_choi(sys):
    """the three Choi->HS implementations on an arbitrary Hermitian Choi matrix: agree with the
    defining formula hs_ab = Tr((B_a (x) conj B_b)^† C) and choi(hs(C)) == C"""
    d = DIMS[sys]
    n = d * d
    B = basis_of(sys)

    def run(I):
        from quara.objects import gate as G
        c = qenv.csys(sys)
        C = _herm(I, "c", n)
        ref = refs.ref_hs_from_choi(C, B)
        h1 = G.to_hs_from_choi(c, C)
        h2 = G.to_hs_from_choi_with_dict(c, C)
        h3 = G.to_hs_from_choi_with_sparsity(c, C)
        out = [Eq("to_hs_from_choi==ref", h1, ref.real), Eq("with_dict==ref", h2, ref.real), Eq("with_sparsity==ref", h3, ref.real)]
        out.append(Eq("choi(hs(C))==C", G.to_choi_from_hs_with_sparsity(c, h3), C))
        return out
    return FnOb(_herm_inputs("c", n, -BOX, BOX), run)


def ob_gate_var_choi(sys, flag):
    d = DIMS[sys]
    n = d * d
    nv = n * n - n if flag else n * n

    def run(I):
        from quara.objects import gate as G
        c = qenv.csys(sys)
        var = vec_of(I, "x", nv)
        choi = G.to_choi_from_var(c, var, on_para_eq_constraint=flag)
        hs = G.convert_var_to_hs(c, var, on_para_eq_constraint=flag)
        out = [Eq("choi_from_var==ref_choi(hs)", choi, refs.ref_choi(hs, basis_of(sys)))]
        back = G.to_var_from_choi(c, choi, on_para_eq_constraint=flag)
        out.append(Eq("var_from_choi(choi_from_var(var))==var", back, var))
        return out
    return FnOb(reals("x", nv, -BOX, BOX), run)


def obligations(tier):
    out = []
    sys_lin = tiers(tier, ["Q1", "T1"], ["Q1", "T1", "Q2", "QT"])
    out += specs("C02.csys.basis", [{"sys": s} for s in ["Q1", "T1", "Q2", "QT"]], ob_csys_basis, 0.1)
    out += specs("C02.state.dm", [{"sys": s} for s in sys_lin], ob_state_dm)
    out += specs("C02.state.dm_inv", [{"sys": s} for s in sys_lin], ob_state_dm_inv)
    out += specs("C02.povm.mats", [{"sys": s, "m": m} for s in sys_lin for m in tiers(tier, [2, 3], [2, 3, 4])], ob_povm_mats)
    out += specs("C02.povm.matrix_with_sparsity", [{"sys": "Q1", "m": 2}], ob_povm_matrix_with_sparsity)
    out += specs("C02.gate.choi", [{"sys": s} for s in sys_lin], ob_gate_choi, 5)
    out += specs("C02.gate.hs_from_choi", [{"sys": s} for s in tiers(tier, ["Q1"], ["Q1", "T1", "Q2"])], ob_gate_hs_from_choi, 5)
    out += specs("C02.gate.var_choi", [{"sys": s, "flag": f} for s in tiers(tier, ["Q1"], ["Q1", "T1"]) for f in (True, False)], ob_gate_var_choi)
    return out


if __name__ == "__main__":
    sys.exit(main("C02", "c02"))
