#!/usr/bin/env python
"""C02 -- all representations of one object denote the same operator."""
from common import *
import itertools

BOX = 1000.0


def tiers(tier, quick, thorough):
    return quick if tier == "quick" else thorough


# ---------------------------------------------------------------------------------------
def ob_csys_basis(sys):
    """quara's basis table of the configuration equals the textbook table (concrete identity)"""
    def run(I):
        c = qenv.csys(sys)
        got = np.array(qenv.dense_basis(c))
        ref = np.array(refs.ref_basis(sys))
        sp = [np.asarray(b.todense()) if hasattr(b, "todense") else np.asarray(b) for b in c.basis()]
        return [Eq("basis==textbook", got, ref, 1e-12),
                Eq("basis_T_sparse", c.basis_T_sparse.toarray(), np.array([b.flatten() for b in ref]).T, 1e-12),
                Eq("basisconjugate_sparse", c.basisconjugate_sparse.toarray(), np.array([b.conj().flatten() for b in ref]), 1e-12)]
    return FnOb([], run, tv_points=0, note="no symbolic input: configuration sanity")


def ob_state_dm(sys):
    d = DIMS[sys]
    n = d * d
    B = basis_of(sys)

    def run(I):
        from quara.objects import state as S
        c = qenv.csys(sys)
        v = vec_of(I, "v", n)
        st = mk_state(c, v)
        dm1 = st.to_density_matrix()
        dm2 = st.to_density_matrix_with_sparsity()
        dm3 = S.to_density_matrix_from_vec(c, v)
        ref = refs.ref_matrix(v, B)
        back = S.to_vec_from_density_matrix_with_sparsity(c, dm2)
        return [Eq("to_density_matrix==ref", dm1, ref), Eq("with_sparsity==ref", dm2, ref), Eq("from_vec==ref", dm3, ref),
                Eq("vec_from_dm(dm(vec))==vec", back, v)]
    return FnOb(reals("v", n, -BOX, BOX), run)


def ob_state_dm_inv(sys):
    """inverse direction on arbitrary Hermitian matrices: dm(vec(M)) == M, vec(M) == Tr(B_i^† M)"""
    d = DIMS[sys]
    B = basis_of(sys)
    names = []

    def inputs():
        out = []
        for i in range(d):
            out.append((f"md{i}", "real", -BOX, BOX))
        for i in range(d):
            for j in range(i + 1, d):
                out += [(f"mr{i}_{j}", "real", -BOX, BOX), (f"mi{i}_{j}", "real", -BOX, BOX)]
        return out

    def herm(I):
        M = np.zeros((d, d), dtype=object)
        for i in range(d):
            M[i, i] = I[f"md{i}"] + 0j
        for i in range(d):
            for j in range(i + 1, d):
                z = I[f"mr{i}_{j}"] + 1j * I[f"mi{i}_{j}"]
                M[i, j] = z
                M[j, i] = z.conjugate()
        if any(type(x) is Sym for x in M.reshape(-1)):
            return M.view(SymNd)
        return M.astype(np.complex128)

    def run(I):
        from quara.objects import state as S
        c = qenv.csys(sys)
        M = herm(I)
        v = S.to_vec_from_density_matrix_with_sparsity(c, M)
        ref = refs.ref_vec(M, B)
        M2 = S.to_density_matrix_from_vec(c, v)
        out = [Eq("vec==Tr(B†M)", v, ref), Eq("dm(vec(M))==M", M2, M)]
        # the same matrix handed over in another memory layout (column-major view): the values decide, not the layout
        MF = _fortran_view(M)
        out.append(Eq("column-major input: vec==Tr(B†M)", S.to_vec_from_density_matrix_with_sparsity(c, MF), ref))
        out.append(Eq("column-major input: var_from_density_matrix", S.to_var_from_density_matrix(c, MF, on_para_eq_constraint=False), ref))
        return out
    return FnOb(inputs(), run)


def _fortran_view(M):
    """the same array values with column-major memory layout (a transposed view of a C-ordered copy of the transpose)"""
    T = np.array(np.asarray(M).T, dtype=np.asarray(M).dtype, order="C", copy=True)
    F = T.T
    assert F.shape == np.shape(M) and not F.flags["C_CONTIGUOUS"]
    return F.view(SymNd) if isinstance(M, SymNd) else F


def ob_povm_mats(sys, m):
    d = DIMS[sys]
    n = d * d
    B = basis_of(sys)

    def run(I):
        from quara.objects import povm as P
        c = qenv.csys(sys)
        vecs = [vec_of(I, f"v{k}_", n) for k in range(m)]
        pv = mk_povm(c, vecs)
        ms1 = pv.matrices()
        ms2 = pv.matrices_with_sparsity()
        out = []
        for k in range(m):
            ref = refs.ref_matrix(vecs[k], B)
            out.append(Eq(f"matrices[{k}]==ref", ms1[k], ref))
            out.append(Eq(f"matrices_with_sparsity[{k}]==ref", ms2[k], ref))
            out.append(Eq(f"matrix({k})==ref", pv.matrix(k), ref))
        back = P.to_vecs_from_matrices_with_sparsity(c, ms2)
        for k in range(m):
            out.append(Eq(f"vecs_from_matrices[{k}]==vec", back[k], vecs[k]))
            out.append(Eq(f"vec_from_matrix[{k}]==vec", P.to_vec_from_matrix_with_sparsity(c, np.asarray(ms1[k])), vecs[k]))
        for flag in (True, False):
            var = P.to_var_from_matrices(c, ms2, on_para_eq_constraint=flag)
            ms3 = P.to_matrices_from_var(c, var, on_para_eq_constraint=flag) if not flag else None
            expect = np.concatenate([np.asarray(v, dtype=object) for v in (vecs[:-1] if flag else vecs)])
            out.append(Eq(f"to_var_from_matrices(flag={flag})", var, expect))
            if ms3 is not None:
                for k in range(m):
                    out.append(Eq(f"matrices_from_var[{k}]", ms3[k], refs.ref_matrix(vecs[k], B)))
        return out
    inp = []
    for k in range(m):
        inp += reals(f"v{k}_", n, -BOX, BOX)
    return FnOb(inp, run)


def ob_povm_matrix_with_sparsity(sys, m):
    d = DIMS[sys]
    n = d * d
    B = basis_of(sys)

    def run(I):
        c = qenv.csys(sys)
        vecs = [vec_of(I, f"v{k}_", n) for k in range(m)]
        pv = mk_povm(c, vecs)
        return [Eq(f"matrix_with_sparsity({k})==ref", pv.matrix_with_sparsity(k), refs.ref_matrix(vecs[k], B)) for k in range(m)]
    inp = []
    for k in range(m):
        inp += reals(f"v{k}_", n, -BOX, BOX)
    return FnOb(inp, run)


def ob_gate_choi(sys):
    d = DIMS[sys]
    n = d * d
    B = basis_of(sys)

    def run(I):
        from quara.objects import gate as G
        c = qenv.csys(sys)
        hs = mat_of(I, "h", n, n)
        g = mk_gate(c, hs)
        ref = refs.ref_choi(hs, B)
        c1 = g.to_choi_matrix()
        c2 = g.to_choi_matrix_with_dict()
        c3 = g.to_choi_matrix_with_sparsity()
        out = [Eq("to_choi_from_hs==ref", c1, ref), Eq("to_choi_with_dict==ref", c2, ref), Eq("to_choi_with_sparsity==ref", c3, ref)]
        out.append(Eq("hs_from_choi(choi)==hs", G.to_hs_from_choi(c, c3), hs))
        out.append(Eq("hs_from_choi_with_dict(choi)==hs", G.to_hs_from_choi_with_dict(c, c3), hs))
        out.append(Eq("hs_from_choi_with_sparsity(choi)==hs", G.to_hs_from_choi_with_sparsity(c, c3), hs))
        return out
    return FnOb(reals("h", n * n, -BOX, BOX), run)


def _herm_inputs(prefix, d, lo, hi):
    out = [(f"{prefix}d{i}", "real", lo, hi) for i in range(d)]
    for i in range(d):
        for j in range(i + 1, d):
            out += [(f"{prefix}r{i}_{j}", "real", lo, hi), (f"{prefix}i{i}_{j}", "real", lo, hi)]
    return out


def _herm(I, prefix, d):
    M = np.zeros((d, d), dtype=object)
    for i in range(d):
        M[i, i] = I[f"{prefix}d{i}"] + 0j
    for i in range(d):
        for j in range(i + 1, d):
            z = I[f"{prefix}r{i}_{j}"] + 1j * I[f"{prefix}i{i}_{j}"]
            M[i, j] = z
            M[j, i] = z.conjugate()
    if any(type(x) is Sym for x in M.reshape(-1)):
        return M.view(SymNd)
    return M.astype(np.complex128)


def ob_gate_hs_from_choi(sys):
    """the three Choi->HS implementations on an arbitrary Hermitian Choi matrix: agree with the
    defining formula hs_ab = Tr((B_a (x) conj B_b)^† C) and choi(hs(C)) == C"""
    d = DIMS[sys]
    n = d * d
    B = basis_of(sys)

    def run(I):
        from quara.objects import gate as G
        c = qenv.csys(sys)
        C = _herm(I, "c", n)
        ref = refs.ref_hs_from_choi(C, B)
        h1 = G.to_hs_from_choi(c, C)
        h2 = G.to_hs_from_choi_with_dict(c, C)
        h3 = G.to_hs_from_choi_with_sparsity(c, C)
        out = [Eq("to_hs_from_choi==ref", h1, ref.real), Eq("with_dict==ref", h2, ref.real), Eq("with_sparsity==ref", h3, ref.real)]
        out.append(Eq("choi(hs(C))==C", G.to_choi_from_hs_with_sparsity(c, h3), C))
        CF = _fortran_view(C)
        out.append(Eq("column-major input: to_hs_from_choi_with_sparsity==ref", G.to_hs_from_choi_with_sparsity(c, CF), ref.real))
        out.append(Eq("column-major input: to_hs_from_choi_with_dict==ref", G.to_hs_from_choi_with_dict(c, CF), ref.real))
        out.append(Eq("column-major input: to_var_from_choi==hs", G.to_var_from_choi(c, CF, on_para_eq_constraint=False), np.asarray(ref.real, dtype=object).reshape(-1)))
        return out
    return FnOb(_herm_inputs("c", n, -BOX, BOX), run)


def ob_gate_var_choi(sys, flag):
    d = DIMS[sys]
    n = d * d
    nv = n * n - n if flag else n * n

    def run(I):
        from quara.objects import gate as G
        c = qenv.csys(sys)
        var = vec_of(I, "x", nv)
        choi = G.to_choi_from_var(c, var, on_para_eq_constraint=flag)
        hs = G.convert_var_to_hs(c, var, on_para_eq_constraint=flag)
        out = [Eq("choi_from_var==ref_choi(hs)", choi, refs.ref_choi(hs, basis_of(sys)))]
        back = G.to_var_from_choi(c, choi, on_para_eq_constraint=flag)
        out.append(Eq("var_from_choi(choi_from_var(var))==var", back, var))
        return out
    return FnOb(reals("x", nv, -BOX, BOX), run)


def _U(to_basis, from_basis):
    """U_ab = Tr(to_a^† from_b)"""
    n = len(to_basis)
    U = np.zeros((n, n), dtype=complex)
    for a in range(n):
        for b in range(n):
            U[a, b] = np.vdot(to_basis[a], from_basis[b])
    return U


def comp_basis_ref(d, mode):
    """matrix units E_ij listed row-major (i slow) or column-major (j slow)"""
    out = []
    for a in range(d):
        for b in range(d):
            E = np.zeros((d, d), dtype=complex)
            if mode == "row_major":
                E[a, b] = 1
            else:
                E[b, a] = 1
            out.append(E)
    return out


def ob_gate_convert(sys, mode):
    """HS in the comp basis (row/column major) and in another orthonormal basis: HS' = U HS U^†
    (U_ab = Tr(B'_a^† B_b)); comp-basis HS equals sum_ab hs_ab |B_a>><<B_b| entrywise; there and back = id"""
    d = DIMS[sys]
    n = d * d
    B = basis_of(sys)

    def run(I):
        from quara.objects import gate as G
        from quara.objects import matrix_basis as MB
        c = qenv.csys(sys)
        hs = mat_of(I, "h", n, n)
        g = mk_gate(c, hs)
        E = comp_basis_ref(d, mode)
        U = _U(E, B)
        ref = refs.mm(refs.mm(U, hs), U.conj().T)
        got = g.convert_to_comp_basis(mode=mode)
        out = [Eq(f"convert_to_comp_basis({mode})==U hs U†", got, ref)]
        # entrywise definition: HS_cb[(i,j),(k,l)] = sum_ab hs_ab flat(B_a)[ij] conj(flat(B_b))[kl]
        order = "C" if mode == "row_major" else "F"
        fl = np.array([b.flatten(order=order) for b in B])          # n x d^2
        ref2 = refs.mm(refs.mm(fl.T, hs), fl.conj())
        out.append(Eq("comp HS == sum hs_ab |B_a>><<B_b|", got, ref2))
        back = G.convert_hs(got, c.comp_basis(mode=mode), c.basis())
        out.append(Eq("convert back == hs", back, hs))
        if sys in ("Q1", "T1"):
            other = MB.get_normalized_hermitian_basis(d) if sys == "Q1" else MB.get_normalized_generalized_gell_mann_basis(dim=3)
            Bo = [np.asarray(b.toarray() if hasattr(b, "toarray") else b) for b in other]
            U2 = _U(Bo, B)
            out.append(Eq("convert_basis(other)==U hs U†", g.convert_basis(other), refs.mm(refs.mm(U2, hs), U2.conj().T)))
        return out
    return FnOb(reals("h", n * n, -BOX, BOX), run)


def ob_vec_convert(sys):
    """convert_vec / State.convert_basis / Povm.convert_basis: new_vec_a = Tr(B'_a^† sum_b v_b B_b)"""
    d = DIMS[sys]
    n = d * d
    B = basis_of(sys)

    def run(I):
        from quara.objects import matrix_basis as MB
        c = qenv.csys(sys)
        v = vec_of(I, "v", n)
        st = mk_state(c, v)
        out = []
        M = refs.ref_matrix(v, B)
        for mode in ("row_major", "column_major"):
            E = comp_basis_ref(d, mode)
            got = MB.convert_vec(v, c.basis(), c.comp_basis(mode=mode))
            out.append(Eq(f"convert_vec->comp({mode})", got, refs.ref_vec(M, E)))
            out.append(Eq(f"convert_vec back({mode})", MB.convert_vec(got, c.comp_basis(mode=mode), c.basis()), v))
        got = st.convert_basis(c.comp_basis())
        out.append(Eq("State.convert_basis(comp)", got, refs.ref_vec(M, comp_basis_ref(d, "row_major"))))
        pv = mk_povm(c, [v, v * 2.0])
        gp = pv.convert_basis(c.comp_basis())
        out.append(Eq("Povm.convert_basis(comp)[1]", gp[1], refs.ref_vec(M, comp_basis_ref(d, "row_major")) * 2.0))
        return out
    return FnOb(reals("v", n, -BOX, BOX), run)


def ob_gate_process(sys):
    """process matrix chi: sum_ab chi_ab E_a (x) conj(E_b) reproduces the comp-basis HS (E = matrix units, row major)"""
    d = DIMS[sys]
    n = d * d
    B = basis_of(sys)

    def run(I):
        c = qenv.csys(sys)
        hs = mat_of(I, "h", n, n)
        g = mk_gate(c, hs)
        chi = g.to_process_matrix()
        E = comp_basis_ref(d, "row_major")
        fl = np.array([b.flatten() for b in B])
        hs_cb = refs.mm(refs.mm(fl.T, hs), fl.conj())
        tot = np.zeros((n, n), dtype=object)
        for a in range(n):
            for b in range(n):
                K = np.kron(E[a], np.conj(E[b]))
                for r, s_ in zip(*np.nonzero(K)):
                    tot[r, s_] = tot[r, s_] + chi[a, b] * K[r, s_]
        return [Eq("sum chi_ab E_a(x)conj(E_b) == HS_cb", tot.view(SymNd), hs_cb)]
    return FnOb(reals("h", n * n, -BOX, BOX), run)


def ob_hs_from_kraus(sys, nk):
    """to_hs_from_kraus_matrices on symbolic complex Kraus operators == Tr(B_a^† K B_b K^†) summed"""
    d = DIMS[sys]
    B = basis_of(sys)

    def run(I):
        from quara.objects import gate as G
        c = qenv.csys(sys)
        Ks = [cvec_of(I, f"k{t}_", d * d).reshape(d, d) for t in range(nk)]
        got = G.to_hs_from_kraus_matrices(c, Ks, eps_truncate_imaginary_part=1e-10)
        ref = refs.ref_hs_from_kraus(Ks, B)
        return [Eq("hs_from_kraus==ref", got, ref.real, 1e-8)]
    inp = []
    for t in range(nk):
        inp += creals(f"k{t}_", d * d, -3.0, 3.0)
    return FnOb(inp, run, expect_nonlinear=True, outside=["Kraus entries outside [-3,3]"])


def ob_kraus_from_hs(sys, vname, nzero):
    """to_kraus_matrices_from_hs with the Choi matrix given by its spectral decomposition
    C = V diag(w) V^†: the first `nzero` eigenvalues are exactly 0, the others symbolic in [1e-6,10] with gaps;
    claims: number of Kraus operators == rank, sum_k K (x) conj(K) (independent formula) reproduces hs,
    K_k^† K_l orthogonality Tr(K_k^† K_l) = w_k delta_kl"""
    from symq import stubs
    d = DIMS[sys]
    n = d * d
    B = basis_of(sys)
    V = dict(refs.positive_frames(n))[vname]
    names = [f"w{i}" for i in range(nzero, n)]

    def wlist(I):
        return [0.0] * nzero + [I[k] for k in names]

    def assume(I):
        return stubs.gaps(wlist(I)[nzero:], 1e-6) if n - nzero > 1 else []

    def run(I):
        from quara.objects import gate as G
        c = qenv.csys(sys)
        w = wlist(I)
        C = stubs.spectral(w, V, "choi")
        hs = refs.ref_hs_from_choi(C, B).real
        ks = G.to_kraus_matrices_from_hs(c, hs, atol=1e-9)
        out = [Holds("number of Kraus operators == rank", len(ks) == n - nzero)]
        back = refs.ref_hs_from_kraus(ks, B) if len(ks) else np.zeros((n, n))
        out.append(Eq("sum_k Tr(B_a† K B_b K†) == hs", back, hs, 1e-7))
        for k, K in enumerate(ks):
            # sorted by decreasing eigenvalue: Tr(K_k† K_k) = k-th largest eigenvalue
            out.append(Eq(f"Tr(K_{k}† K_{k}) == w_(n-1-{k})", refs.tr(refs.mm(refs.dag(K), K)), w[n - 1 - k], 1e-7))
        # the atol argument is the tolerance of the CP test only: a loose value (as a gate with a loose eps_proj_physical passes) must not
        # drop Kraus operators whose weight lies between the global zero threshold and that tolerance
        ks2 = G.to_kraus_matrices_from_hs(c, hs, atol=1e-2)
        out.append(Holds("loose CP tolerance: still one Kraus operator per non-zero eigenvalue", len(ks2) == n - nzero))
        back2 = refs.ref_hs_from_kraus(ks2, B) if len(ks2) else np.zeros((n, n))
        out.append(Eq("loose CP tolerance: sum_k Tr(B_a† K B_b K†) == hs", back2, hs, 1e-7))
        return out
    return FnOb([(k, "real", 1e-6, 10.0) for k in names], run, assume=assume, expect_nonlinear=True,
                stubs=["np.linalg.eigh/eigvalsh: spectral parametrisation, frame " + vname], max_paths=50,
                outside=["eigenvector frames outside the library (in particular frames whose eigenvectors need the phase-fixing branch)",
                         "degenerate spectra (LAPACK's eigenvector choice)", "eigenvalues in (0,1e-6)"])


def select(arrs, idx):
    """arrs[idx] for a symbolic integer idx as an element-wise ITE chain"""
    if not isinstance(idx, Sym):
        return arrs[int(idx)]
    out = np.asarray(arrs[-1], dtype=object)
    for k in range(len(arrs) - 2, -1, -1):
        a = np.asarray(arrs[k], dtype=object)
        new = np.empty(a.shape, dtype=object)
        for pos in np.ndindex(a.shape):
            new[pos] = ite(idx == k, a[pos], out[pos])
        out = new
    return out.view(SymNd)


def ob_get_basis_tuple(sys):
    """CompositeSystem.get_basis((i,j)) == B1_i (x) B2_j for every in-range (i,j) (symbolic integers; the library's own index
    arithmetic runs on them, the returned element is compared for every pair the path condition allows)"""
    kinds = {"Q2": "QQ", "QT": "QT", "TQ": "TQ"}[sys]
    single = {"Q": refs.pauli(True), "T": refs.gell_mann()}
    n1, n2 = len(single[kinds[0]]), len(single[kinds[1]])

    def run(I):
        c = qenv.csys(sys)
        i, j = I["i"], I["j"]
        got = c.get_basis((i, j))
        got = got.toarray() if hasattr(got, "toarray") else np.asarray(got)
        parts = []
        for a in range(n1):
            for b in range(n2):
                same = bool(np.max(np.abs(got - np.kron(single[kinds[0]][a], single[kinds[1]][b]))) < 1e-12)
                parts.append(implies(SBool.of(i == a) & SBool.of(j == b), same))
        return [Holds("get_basis((i,j)) == B_i (x) B_j for every (i,j) consistent with the path", s_and(parts))]
    return FnOb([("i", "int", 0, n1 - 1), ("j", "int", 0, n2 - 1)], run, max_paths=200)


def ob_truncate_hs(nn):
    """truncate_hs: documented threshold semantics with symbolic eps"""
    def run(I):
        from quara.utils import matrix_util as MU
        x = cvec_of(I, "z", nn)
        eps = I["eps"]
        out = []
        try:
            got = MU.truncate_hs(x, eps_truncate_imaginary_part=eps)
            raised = False
        except ValueError:
            raised = True
            got = None
        ims = [Sym.of(v).imag if isinstance(v, Sym) else np.imag(v) for v in x]
        res = [Sym.of(v).real if isinstance(v, Sym) else np.real(v) for v in x]
        absf = (lambda t: abs(t)) 
        all_small = s_and([SBool.of(absf(t) < eps) | SBool.of(Sym.of(t) == 0) if isinstance(t, Sym) else (abs(t) < eps or t == 0) for t in ims])
        out.append(Holds("raises iff some |imag| >= eps (and != 0)", iff(raised, ~all_small)))
        if not raised:
            exp = [ite(SBool.of(absf(Sym.of(r)) < eps), 0.0, r) for r in res]
            out.append(Eq("result == real part with |x|<eps zeroed", got, SymNd(exp) if any(isinstance(e, Sym) for e in exp) else np.array(exp, dtype=float), 0.0))
        return out
    return FnOb(creals("z", nn, -10.0, 10.0) + [("eps", "real", 1e-13, 1e-2)], run, max_paths=64)


def ob_mprocess_conv(sys, m):
    """per-outcome conversions of a measurement process agree with the gate-level reference"""
    d = DIMS[sys]
    n = d * d
    B = basis_of(sys)

    def run(I):
        c = qenv.csys(sys)
        hss = [mat_of(I, f"h{k}_", n, n) for k in range(m)]
        mp = mk_mprocess(c, hss)
        out = []
        E = comp_basis_ref(d, "row_major")
        U = _U(E, B)
        cb = mp.convert_to_comp_basis()
        for k in range(m):
            ref = refs.ref_choi(hss[k], B)
            out.append(Eq(f"choi[{k}]", mp.to_choi_matrix(k), ref))
            out.append(Eq(f"choi_with_dict[{k}]", mp.to_choi_matrix_with_dict(k), ref))
            out.append(Eq(f"choi_with_sparsity[{k}]", mp.to_choi_matrix_with_sparsity(k), ref))
            out.append(Eq(f"comp_basis[{k}]", cb[k], refs.mm(refs.mm(U, hss[k]), U.conj().T)))
            out.append(Eq(f"hs(({k},))", mp.hs((k,)), hss[k]))
        # convert_basis to a basis whose transition matrix is not Hermitian (the computational basis, both orderings): per outcome U hs U†
        for mode in ("row_major", "column_major"):
            Em = comp_basis_ref(d, mode)
            Um = _U(Em, B)
            conv = mp.convert_basis(c.comp_basis(mode=mode))
            for k in range(m):
                out.append(Eq(f"convert_basis(comp basis {mode})[{k}] == U hs U†", conv[k], refs.mm(refs.mm(Um, hss[k]), Um.conj().T)))
            # both orderings asked on the same composite system, in both orders (nothing is remembered from the first request)
            cb2 = mp.convert_to_comp_basis(mode=mode)
            for k in range(m):
                out.append(Eq(f"convert_to_comp_basis(mode={mode})[{k}] == U hs U†", cb2[k], refs.mm(refs.mm(Um, hss[k]), Um.conj().T)))
        cb3 = mp.convert_to_comp_basis(mode="row_major")
        for k in range(m):
            out.append(Eq(f"convert_to_comp_basis(row_major, asked again after column_major)[{k}]", cb3[k], refs.mm(refs.mm(U, hss[k]), U.conj().T)))
        return out
    inp = []
    for k in range(m):
        inp += reals(f"h{k}_", n * n, -BOX, BOX)
    return FnOb(inp, run)


def obligations(tier):
    out = []
    sys_lin = tiers(tier, ["Q1", "T1"], ["Q1", "T1", "Q2", "QT"])
    out += specs("C02.csys.basis", [{"sys": s} for s in ["Q1", "T1", "Q2", "QT"]], ob_csys_basis, 0.1)
    out += specs("C02.state.dm", [{"sys": s} for s in sys_lin], ob_state_dm)
    out += specs("C02.state.dm_inv", [{"sys": s} for s in sys_lin], ob_state_dm_inv)
    out += specs("C02.povm.mats", [{"sys": s, "m": m} for s in sys_lin for m in tiers(tier, [2, 3], [2, 3, 4])], ob_povm_mats)
    out += specs("C02.povm.matrix_with_sparsity", [{"sys": "Q1", "m": 2}], ob_povm_matrix_with_sparsity)
    out += specs("C02.gate.choi", [{"sys": s} for s in sys_lin], ob_gate_choi, 5)
    out += specs("C02.gate.hs_from_choi", [{"sys": s} for s in tiers(tier, ["Q1"], ["Q1", "T1", "Q2"])], ob_gate_hs_from_choi, 5)
    out += specs("C02.gate.var_choi", [{"sys": s, "flag": f} for s in tiers(tier, ["Q1"], ["Q1", "T1"]) for f in (True, False)], ob_gate_var_choi)
    out += specs("C02.gate.convert", [{"sys": s, "mode": md} for s in tiers(tier, ["Q1", "T1", "Q2"], ["Q1", "T1", "Q2", "QT"]) for md in ("row_major", "column_major")], ob_gate_convert, 3)
    out += specs("C02.vec.convert", [{"sys": s} for s in ["Q1", "T1", "Q2", "QT"]], ob_vec_convert)
    out += specs("C02.gate.process", [{"sys": s} for s in tiers(tier, ["Q1"], ["Q1", "T1"])], ob_gate_process, 3)
    out += specs("C02.gate.hs_from_kraus", [{"sys": "Q1", "nk": k} for k in tiers(tier, [1, 2], [1, 2, 3])] + tiers(tier, [], [{"sys": "T1", "nk": 1}]), ob_hs_from_kraus, 4)
    out += specs("C02.gate.kraus_from_hs", [{"sys": "Q1", "vname": v, "nzero": z} for v in tiers(tier, ["refl(x)cplx"], ["id", "refl(x)cplx", "perm"])
                                             for z in tiers(tier, [0, 2], [0, 1, 2, 3])], ob_kraus_from_hs, 6)
    out += specs("C02.csys.get_basis_tuple", [{"sys": s} for s in ["Q2", "QT", "TQ"]], ob_get_basis_tuple, 2)
    out += specs("C02.truncate_hs", [{"nn": k} for k in tiers(tier, [1, 2], [1, 2, 3])], ob_truncate_hs)
    out += specs("C02.mprocess.conv", [{"sys": s, "m": m} for s in tiers(tier, ["Q1"], ["Q1", "T1"]) for m in tiers(tier, [2], [2, 3])], ob_mprocess_conv, 4)
    return out


if __name__ == "__main__":
    sys.exit(main("C02", "c02"))
