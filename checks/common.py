"""shared helpers for the per-property check scripts"""
import os, sys
sys.path.insert(0, os.path.dirname(os.path.dirname(os.path.abspath(__file__))))
import numpy as np
from symq import core, nd, qenv, refs
from symq.oblig import Ob, ObSpec, Eq, Holds, main
from symq.core import Sym, SBool, s_and, s_or, implies, iff, ite
from symq.nd import SymNd, symbolic_mode

qenv.install_all()

DIMS = {"Q1": 2, "T1": 3, "Q2": 4, "QT": 6, "TQ": 6, "Q3": 8, "T2": 9, "Q1u": 2, "Q1h": 2, "Q1x": 2, "Q2x": 4, "Q4": 16}


class FnOb(Ob):
    """obligation given by plain functions"""

    def __init__(self, inputs, run, assume=None, setup=None, **kw):
        self.inputs = inputs
        self._run = run
        self._assume = assume
        self._setup = setup
        for k, v in kw.items():
            setattr(self, k, v)

    def run(self, I):
        return self._run(I)

    def assume(self, I):
        return self._assume(I) if self._assume else []

    def setup(self):
        if self._setup:
            self._setup()


def reals(prefix, n, lo, hi):
    return [(f"{prefix}{i}", "real", lo, hi) for i in range(n)]


def vec_of(I, prefix, n):
    """array of the inputs prefix0..prefix{n-1}; SymNd when symbolic, float64 otherwise"""
    xs = [I[f"{prefix}{i}"] for i in range(n)]
    if any(type(x) is Sym for x in xs):
        return SymNd(xs)
    return np.array(xs, dtype=np.float64)


def mat_of(I, prefix, r, c):
    return vec_of(I, prefix, r * c).reshape(r, c)


def cvec_of(I, prefix, n):
    """complex vector from inputs prefix{i}r / prefix{i}i"""
    xs = [I[f"{prefix}{i}r"] + 1j * I[f"{prefix}{i}i"] for i in range(n)]
    if any(type(x) is Sym for x in xs):
        return SymNd(xs)
    return np.array(xs, dtype=np.complex128)


def creals(prefix, n, lo, hi):
    out = []
    for i in range(n):
        out += [(f"{prefix}{i}r", "real", lo, hi), (f"{prefix}{i}i", "real", lo, hi)]
    return out


def mk_state(c_sys, vec, **kw):
    from quara.objects.state import State
    kw.setdefault("is_physicality_required", False)
    return State(c_sys, vec, **kw)


def mk_povm(c_sys, vecs, **kw):
    from quara.objects.povm import Povm
    kw.setdefault("is_physicality_required", False)
    return Povm(c_sys, list(vecs), **kw)


def mk_gate(c_sys, hs, **kw):
    from quara.objects.gate import Gate
    kw.setdefault("is_physicality_required", False)
    return Gate(c_sys, hs, **kw)


def mk_mprocess(c_sys, hss, **kw):
    from quara.objects.mprocess import MProcess
    kw.setdefault("is_physicality_required", False)
    return MProcess(c_sys, list(hss), **kw)


def basis_of(cfg):
    """dense basis matrices of the configuration: the independent reference table when one exists
    (and then quara's own table is compared against it in C02.csys.basis), quara's otherwise"""
    rb = refs.ref_basis(cfg)
    if rb is not None:
        return rb
    return qenv.dense_basis(qenv.csys(cfg))


def specs(name, cfgs, maker, weight=1.0):
    return [ObSpec(name, cfg, (lambda cfg=cfg: maker(**cfg)), weight) for cfg in cfgs]


def select(arrs, idx):
    """arrs[idx] for a symbolic integer idx as an element-wise ITE chain (concrete idx: plain indexing)"""
    if not isinstance(idx, Sym):
        return arrs[int(idx)]
    if idx.is_const():
        return arrs[int(idx.cval())]
    out = np.asarray(arrs[-1], dtype=object)
    for k in range(len(arrs) - 2, -1, -1):
        a = np.asarray(arrs[k], dtype=object)
        if a.ndim == 0:
            out = np.asarray(ite(idx == k, a[()], out[()]), dtype=object)
            continue
        new = np.empty(a.shape, dtype=object)
        for pos in np.ndindex(a.shape):
            new[pos] = ite(idx == k, a[pos], out[pos])
        out = new
    if out.ndim == 0:
        return out[()]
    return out.view(SymNd)


def in_range(i, lo, hi):
    """lo <= i < hi as a formula / bool"""
    return SBool.of(i >= lo) & SBool.of(i < hi)


def flat(a):
    return np.ndarray.reshape(np.asarray(a, dtype=object), -1) if nd.has_sym(a) else np.asarray(a).reshape(-1)


def fortran_view(M):
    """the same array values with column-major memory layout (a transposed view of a C-ordered copy of the transpose): functions must
    depend on the values, not on the memory layout of their arguments"""
    A = np.asarray(M)
    T = np.array(A.T, dtype=A.dtype, order="C", copy=True)
    F = T.T
    assert F.shape == A.shape and (A.ndim < 2 or min(A.shape) < 2 or not F.flags["C_CONTIGUOUS"])
    return F.view(SymNd) if isinstance(M, SymNd) else F
