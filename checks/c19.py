#!/usr/bin/env python
"""C19 -- analytical error formulas equal the exact expectations over the multinomial sampling distribution."""
from common import *
import itertools, math
import c03, c08, c09, tomo_lib

TOMO_TYPE = c08.TOMO_TYPE
qenv.install_all(["quara.data_analysis.data_analysis"])
PMIN = 1e-3


def tiers(tier, quick, thorough):
    return quick if tier == "quick" else thorough


def proj_sel(tomo, testers="pauli"):
    """tester sets.  pauli: projective Pauli measurements / pure Pauli eigenstates.  mixed: an unbalanced measurement
    (elements diag(0.8,0.1), diag(0.2,0.9) of unequal trace) resp. a mixed input state among them, so that the constant parts of the
    predicted distributions differ between schedules."""
    if testers == "pauli":
        return {"qst": dict(povms=[0, 1, 2]), "povmt": dict(states=[0, 1, 2, 3])}[tomo]
    if testers == "over":
        # over-complete: more testers than needed (the left inverse is not an inverse)
        return {"qst": dict(povms=[0, 1, 2, 5]), "povmt": dict(states=[0, 1, 2, 3, 4])}[tomo]
    return {"qst": dict(povms=[0, 6, 1]), "povmt": dict(states=[4, 1, 2, 3])}[tomo]


TESTERS = {"v": "pauli"}


def setup(tomo, m, flag):
    sel = proj_sel(tomo, TESTERS["v"])
    qt, tmpl = tomo_lib.build(tomo, "Q1", m=m, flag=flag, sel=sel)
    sched = c08.default_schedules(tomo, sel)
    return qt, tmpl, sel, sched


def n_free(tomo, m):
    return c03.n_var(TOMO_TYPE[tomo], 2, m, True)


def full_var(tomo, m, flag, xf):
    """variable vector of a VALID object (unit trace / elements summing to the identity) from its free parameters: with
    on_para_eq_constraint=False the implied entries are filled in"""
    if flag:
        return xf
    xs = list(flat(xf))
    if tomo == "qst":
        full = [1 / np.sqrt(2)] + xs
    else:
        last = [np.sqrt(2), 0.0, 0.0, 0.0]
        for k in range(m - 1):
            for a in range(4):
                last[a] = last[a] - xs[4 * k + a]
        full = xs + last
    return SymNd(full) if any(type(v) is Sym for v in full) else np.array(full, dtype=np.float64)


def count_vectors(N, k):
    """all k-tuples of non-negative integers summing to N"""
    if k == 1:
        return [(N,)]
    out = []
    for a in range(N + 1):
        out += [(a,) + rest for rest in count_vectors(N - a, k - 1)]
    return out


def pmf(kv, ps, N):
    c = math.factorial(N)
    for a in kv:
        c //= math.factorial(a)
    t = float(c)
    for a, p in zip(kv, ps):
        for _ in range(a):
            t = t * p
    return t


def true_probs(tomo, m, flag, x, sched, sel):
    return c08.born_reference(tomo, "Q1", m, flag, x, sched, sel)


def ob_cov(tomo, m, flag, N, testers="pauli"):
    """covariance of the empirical distributions: calc_covariance_mat_single == (diag(p) - p p^T)/N == exact covariance of k/N under the
    multinomial law (complete enumeration of the count vectors), calc_covariance_mat_total == their direct sum,
    calc_mse_empi_dists_analytical == sum_j E|k_j/N - p_j|^2"""
    nv = c03.n_var(TOMO_TYPE[tomo], 2, m, flag)
    nf = n_free(tomo, m)

    def assume(I):
        TESTERS["v"] = testers
        qt, tmpl, sel, sched = setup(tomo, m, flag)
        ps = true_probs(tomo, m, flag, full_var(tomo, m, flag, vec_of(I, "x", nf)), sched, sel)
        return [SBool.of(p >= PMIN) for pj in ps for p in pj]

    def run(I):
        TESTERS["v"] = testers
        qt, tmpl, sel, sched = setup(tomo, m, flag)
        x = full_var(tomo, m, flag, vec_of(I, "x", nf))
        obj = tmpl.generate_from_var(x)
        ps = true_probs(tomo, m, flag, x, sched, sel)
        Ns = [N + (j % 2) for j in range(len(sched))]         # unequal sample sizes
        out = []
        tot_mse = 0
        blocks = []
        for j, pj in enumerate(ps):
            cov = qt.calc_covariance_mat_single(obj, j, Ns[j])
            k = len(pj)
            ref = np.zeros((k, k), dtype=object)
            enum = np.zeros((k, k), dtype=object)
            for a in range(k):
                for b in range(k):
                    ref[a, b] = ((pj[a] if a == b else 0.0) - pj[a] * pj[b]) / Ns[j]
            for kv in count_vectors(Ns[j], k):
                w = pmf(kv, pj, Ns[j])
                for a in range(k):
                    for b in range(k):
                        enum[a, b] = enum[a, b] + w * (kv[a] / Ns[j] - pj[a]) * (kv[b] / Ns[j] - pj[b])
            if os.environ.get("C19_DBG"):
                for a in range(k):
                    for b in range(k):
                        print("D", j, a, b, Sym.of(cov[a, b]) - Sym.of(ref[a, b]), "|E|", Sym.of(cov[a, b]) - Sym.of(enum[a, b]), file=sys.stderr)
            out.append(Eq(f"schedule {j}: covariance == (diag p - p p^T)/N", cov, ref, 1e-8))
            out.append(Eq(f"schedule {j}: covariance == exact multinomial covariance (enumeration)", cov, enum, 1e-7))
            blocks.append(cov)
            for a in range(k):
                tot_mse = tot_mse + enum[a, a]
        total = qt.calc_covariance_mat_total(obj, Ns)
        pos = 0
        for j, blk in enumerate(blocks):
            k = blk.shape[0]
            out.append(Eq(f"total covariance: block {j}", total[pos:pos + k, pos:pos + k], blk, 1e-12))
            pos += k
        out.append(Holds("total covariance size", total.shape == (pos, pos)))
        out.append(Eq("calc_mse_empi_dists_analytical == sum_j E|k_j/N_j - p_j|^2", qt.calc_mse_empi_dists_analytical(obj, Ns), tot_mse, 1e-7))
        if os.environ.get("C19_DBG"):
            for c_ in out:
                if isinstance(c_, Eq):
                    ds = c_.diffs()
                    print("CLAIM", c_.label, [float(core.poly_absbound(d_)) if d_.t else 0 for d_ in (ds or [])][:6], file=sys.stderr)
        return out
    return FnOb(reals("x", nf, -1.0, 1.0), run, assume=assume, eager_ite=True, max_paths=20, expect_nonlinear=True)


def ob_mse_linear(tomo, m, flag, N, mode, testers="pauli", uneven=False):
    """calc_mse_linear_analytical(mode) == E |estimate - truth|^2, the expectation taken exactly over all multinomial outcomes with the
    estimate computed by the REAL LinearEstimator on each concrete data set k/N (truth symbolic)"""
    nv = c03.n_var(TOMO_TYPE[tomo], 2, m, flag)
    nf = n_free(tomo, m)

    def assume(I):
        TESTERS["v"] = testers
        qt, tmpl, sel, sched = setup(tomo, m, flag)
        ps = true_probs(tomo, m, flag, full_var(tomo, m, flag, vec_of(I, "x", nf)), sched, sel)
        return [SBool.of(p >= PMIN) for pj in ps for p in pj]

    def run(I):
        from quara.protocol.qtomography.standard.linear_estimator import LinearEstimator
        TESTERS["v"] = testers
        qt, tmpl, sel, sched = setup(tomo, m, flag)
        x = full_var(tomo, m, flag, vec_of(I, "x", nf))
        obj = tmpl.generate_from_var(x)
        ps = true_probs(tomo, m, flag, x, sched, sel)
        S = len(sched)
        Ns = [N + (j % 2 if uneven else 0) for j in range(S)]        # uneven: sample sizes differ between schedules
        got = qt.calc_mse_linear_analytical(obj, Ns, mode=mode)
        truth_var = list(flat(x))
        truth_st = list(c03.ref_stacked_from_var(TOMO_TYPE[tomo], 2, m, flag, x))
        est = LinearEstimator()
        per = [count_vectors(Ns[j], len(pj)) for j, pj in enumerate(ps)]
        exp = 0
        for combo in itertools.product(*per):
            w = 1.0
            for j, (kv, pj) in enumerate(zip(combo, ps)):
                w = w * pmf(kv, pj, Ns[j])
            data = [(Ns[j], np.array(kv, dtype=np.float64) / Ns[j]) for j, kv in enumerate(combo)]
            r = est.calc_estimate(qt, data)
            if mode == "var":
                ev = nd.to_concrete(np.asarray(r.estimated_var, dtype=object)) if nd.is_concrete(r.estimated_var) else r.estimated_var
                err = 0
                for a, b in zip(flat(ev), truth_var):
                    err = err + (a - b) * (a - b)
            else:
                es = r.estimated_qoperation.to_stacked_vector()
                err = 0
                for a, b in zip(flat(es), truth_st):
                    err = err + (a - b) * (a - b)
            exp = exp + w * err
        return [Eq(f"calc_mse_linear_analytical(mode={mode}) == exact expectation of the squared error", got, exp, 1e-6)]
    return FnOb(reals("x", nf, -1.0, 1.0), run, assume=assume, eager_ite=True, max_paths=20, expect_nonlinear=True, explore_budget=900)


def ob_fisher(tomo, m, flag, testers="pauli"):
    """calc_fisher_matrix(j, x) == sum_outcomes (grad p)(grad p)^T / p ; total == weighted sum"""
    nv = c03.n_var(TOMO_TYPE[tomo], 2, m, flag)
    nf = n_free(tomo, m)

    def assume(I):
        TESTERS["v"] = testers
        qt, tmpl, sel, sched = setup(tomo, m, flag)
        ps = true_probs(tomo, m, flag, full_var(tomo, m, flag, vec_of(I, "x", nf)), sched, sel)
        return [SBool.of(p >= PMIN) for pj in ps for p in pj]

    def run(I):
        TESTERS["v"] = testers
        qt, tmpl, sel, sched = setup(tomo, m, flag)
        x = full_var(tomo, m, flag, vec_of(I, "x", nf))
        A = qt.calc_matA()
        ps = true_probs(tomo, m, flag, x, sched, sel)
        out = []
        pos = 0
        tot = np.zeros((nv, nv), dtype=object)
        wts = [2.0, 0.5, 1.5, 1.0][:len(sched)]
        for j, pj in enumerate(ps):
            F = qt.calc_fisher_matrix(j, x)
            ref = np.zeros((nv, nv), dtype=object)
            for r_, p in enumerate(pj):
                for a in range(nv):
                    for b in range(nv):
                        ref[a, b] = ref[a, b] + A[pos + r_, a] * A[pos + r_, b] / p
            out.append(Eq(f"Fisher matrix of schedule {j} == sum (grad p)(grad p)^T / p", F, ref, 1e-6))
            tot = tot + ref * wts[j]
            pos += len(pj)
        if os.environ.get("C19_DBG"):
            for i, v in core.CTX.div_info.items():
                print("Q", i, v, file=sys.stderr)
        core.derive_near_quotient_facts(1e-8)
        for qa in core.div_atoms():
            core.lemma(SBool.of(qa <= 1e7) & SBool.of(qa >= -1e7))
        out.append(Eq("total Fisher matrix == weighted sum", qt.calc_fisher_matrix_total(x, wts), tot, 1e-5))
        return out
    return FnOb(reals("x", nf, -1.0, 1.0), run, assume=assume, eager_ite=True, max_paths=20, expect_nonlinear=True)


def ob_crb(tomo, m, flag, testers="pauli"):
    """Cramer-Rao bound at a concrete physical point with a SYMBOLIC representative N: equals the textbook Tr[(sum_j N_j F_j)^-1]
    (+ the implied-element term for constrained POVM tomography) for every N, i.e. does not depend on N"""
    nv = c03.n_var(TOMO_TYPE[tomo], 2, m, flag)

    def run(I):
        TESTERS["v"] = testers
        qt, tmpl, sel, sched = setup(tomo, m, flag)
        N = I["N"]
        # a physical interior point
        if tomo == "qst":
            xf = np.array([0.2, -0.1, 0.3])
        else:
            xf = np.concatenate([np.array([np.sqrt(2) / (m + k), 0.1 - 0.05 * k, 0.05 * (k + 1), 0.2 - 0.1 * k]) for k in range(m - 1)])
        x0 = full_var(tomo, m, flag, xf)
        listN = [10 + 5 * j for j in range(len(sched))]
        got = qt.calc_cramer_rao_bound(x0, N, listN)
        A = np.asarray(nd.to_concrete(qt.calc_matA()), dtype=float)
        b = np.asarray(nd.to_concrete(qt.calc_vecB()), dtype=float)
        p = A @ np.asarray(nd.to_concrete(x0), dtype=float) + b
        Ftot = np.zeros((nv, nv))
        pos = 0
        size = len(p) // len(sched)
        for j in range(len(sched)):
            for r_ in range(size):
                Ftot += listN[j] * np.outer(A[pos + r_], A[pos + r_]) / p[pos + r_]
            pos += size
        Finv = np.linalg.inv(Ftot)
        ref = np.trace(Finv)
        if tomo == "povmt" and flag:
            Smat = np.hstack([np.eye(4)] * (m - 1))
            ref = ref + np.trace(Smat @ Finv @ Smat.T)
        return [Eq("Cramer-Rao bound == Tr[(sum_j N_j F_j)^-1] (+ implied element), independent of N", got, ref, 1e-6)]
    return FnOb([("N", "real", 1.0, 1e4)], run, max_paths=20, expect_nonlinear=True, exact_timeout_ms=120000,
                stubs=["np.linalg.inv of the 3x3 / 4x4 Fisher matrix: adjugate formula on symbolic entries (size <= 3) or concrete LAPACK"])


def ob_helpers(n):
    """calc_se, calc_direct_sum, calc_conjugate, calc_left_inv, replace_prob_dist, calc_covariance_mat compute what they say (symbolic inputs)"""
    def run(I):
        from quara.utils import matrix_util as MU
        a = vec_of(I, "a", n)
        b = vec_of(I, "b", n)
        se = MU.calc_se([a, b], [b, a * 0.5])
        ref = 0
        for u, v in ((a, b), (b, a * 0.5)):
            for s_, t in zip(flat(u), flat(v)):
                ref = ref + (s_ - t) * (s_ - t)
        out = [Eq("calc_se == sum of squared differences", se, ref, 1e-9)]
        M1 = np.outer(np.asarray(a, dtype=object), np.asarray(b, dtype=object)).view(SymNd) if nd.has_sym(a) else np.outer(a, b)
        M2 = np.diag(np.asarray(b, dtype=object)).view(SymNd) if nd.has_sym(b) else np.diag(b)
        ds = MU.calc_direct_sum([M1, M2])
        exp = np.zeros((2 * n, 2 * n), dtype=object)
        exp[:n, :n] = np.asarray(M1, dtype=object)
        exp[n:, n:] = np.asarray(M2, dtype=object)
        out.append(Eq("calc_direct_sum", ds, exp, 0.0))
        X = np.arange(1, n * 2 + 1, dtype=float).reshape(2, n) / 3.0
        out.append(Eq("calc_conjugate == x v x^T", MU.calc_conjugate(X, M1), refs.mm(refs.mm(X, M1), X.T), 1e-9))
        q = vec_of(I, "q", n)
        cov = MU.calc_covariance_mat(q, 7)
        expc = np.zeros((n, n), dtype=object)
        ql = list(flat(q))
        for i in range(n):
            for j in range(n):
                expc[i, j] = ((ql[i] if i == j else 0.0) - ql[i] * ql[j]) / 7
        out.append(Eq("calc_covariance_mat == (diag q - q q^T)/n", cov, expc, 1e-9))
        Atall = np.vstack([np.eye(n), np.ones((1, n))])
        Li = MU.calc_left_inv(Atall)
        out.append(Eq("calc_left_inv(A) A == I", Li @ Atall, np.eye(n), 1e-9))
        return out
    return FnOb(reals("a", n, -3.0, 3.0) + reals("b", n, -3.0, 3.0) + reals("q", n, 0.0, 1.0), run, expect_nonlinear=True)


def ob_fisher_boundary():
    """calc_fisher_matrix with the DEFAULT regularisation on a boundary distribution: an outcome probability below the documented
    threshold 1e-8 is replaced by 1e-8 (the excess taken from the other entries), so the Fisher matrix stays finite and equals
    sum_x g_x g_x^T / p'_x with the replaced p'"""
    def run(I):
        from quara.utils import matrix_util as MU
        a = I["a"]
        p = SymNd([a, 0.3, 0.7 - a]) if isinstance(a, Sym) else np.array([a, 0.3, 0.7 - a], dtype=np.float64)
        g = [np.array([0.5, -0.2]), np.array([-0.1, 0.3]), np.array([-0.4, -0.1])]
        F = MU.calc_fisher_matrix(p, g)
        eps = 1e-8
        pr = [eps, 0.3 - eps / 2, 0.7 - a - eps / 2]
        ref = np.zeros((2, 2), dtype=object)
        for x in range(3):
            for i in range(2):
                for j in range(2):
                    ref[i, j] = ref[i, j] + g[x][i] * g[x][j] / pr[x]
        return [Eq("Fisher matrix == sum g g^T / p' with the documented replacement threshold 1e-8", F, ref, 1e-3)]
    return FnOb([("a", "real", 0.0, 5e-9)], run, max_paths=20, expect_nonlinear=True, eager_ite=True)


def ob_data_analysis(typ, m):
    """data_analysis helpers used to compare simulated with analytical errors: calc_mse_qoperations == mean squared distance of the
    objects' FULL (stacked) parameter vectors, whatever the parametrisation flag; covariance helpers == (diag p - p p^T)/N and their
    direct sum"""
    ns = c03.n_stacked(typ, 2, m)

    def run(I):
        import quara.data_analysis.data_analysis as DA
        c = qenv.csys("Q1")
        out = []
        for flag in (True, False):
            nv = c03.n_var(typ, 2, m, flag)
            tmpl = c03.make_obj(typ, c, (SymNd([0.0] * ns) if core.CTX.active else np.zeros(ns)), m, flag)
            objs = [tmpl.generate_from_var(vec_of(I, f"a{k}_", nv)) for k in range(2)]
            truth = tmpl.generate_from_var(vec_of(I, "t", nv))
            got = DA.calc_mse_qoperations(objs, [truth, truth], with_std=False)
            ref = 0
            for o in objs:
                for u, v in zip(flat(o.to_stacked_vector()), flat(truth.to_stacked_vector())):
                    ref = ref + (u - v) * (u - v)
            out.append(Eq(f"[flag={flag}] calc_mse_qoperations == mean squared distance of the stacked vectors", got, ref / 2, 1e-8))
        q = vec_of(I, "q", 3)
        cov = DA.calc_covariance_matrix_of_prob_dist(q, 7)
        ql = list(flat(q))
        exp = np.zeros((3, 3), dtype=object)
        for i in range(3):
            for j in range(3):
                exp[i, j] = ((ql[i] if i == j else 0.0) - ql[i] * ql[j]) / 7
        out.append(Eq("calc_covariance_matrix_of_prob_dist == (diag q - q q^T)/N", cov, exp, 1e-9))
        tot = DA.calc_covariance_matrix_of_prob_dists([q, q], 7)
        blk = np.zeros((6, 6), dtype=object)
        blk[:3, :3] = exp
        blk[3:, 3:] = exp
        out.append(Eq("calc_covariance_matrix_of_prob_dists == direct sum", tot, blk, 1e-9))
        # distributions of unequal length (a three-outcome measurement between two two-outcome ones): 2 + 3 + 2 blocks at offsets 0, 2, 5
        def cov_of(v):
            k = len(v)
            return np.array([[((v[i] if i == j else 0.0) - v[i] * v[j]) / 7 for j in range(k)] for i in range(k)], dtype=object)
        q2a, q2b = [ql[0], 1 - ql[0]], [ql[1], 1 - ql[1]]
        mix = DA.calc_covariance_matrix_of_prob_dists([SymNd(q2a), q, SymNd(q2b)], 7)
        blk = np.zeros((7, 7), dtype=object)
        blk[:2, :2] = cov_of(q2a)
        blk[2:5, 2:5] = exp
        blk[5:, 5:] = cov_of(q2b)
        out.append(Holds("unequal lengths: the total covariance is (2+3+2) x (2+3+2)", tuple(np.shape(mix)) == (7, 7)))
        out.append(Eq("unequal lengths: calc_covariance_matrix_of_prob_dists == direct sum of the blocks at the running offsets", mix, blk, 1e-9))
        return out
    nvmax = c03.n_var(typ, 2, m, False)
    return FnOb(reals("a0_", nvmax, -1.0, 1.0) + reals("a1_", nvmax, -1.0, 1.0) + reals("t", nvmax, -1.0, 1.0) + reals("q", 3, 0.0, 1.0), run, expect_nonlinear=True)


def obligations(tier):
    out = []
    for tomo, m in [("qst", 0), ("povmt", 2)] + tiers(tier, [], [("povmt", 3)]):
        for flag in (True, False):
            out += specs("C19.cov", [{"tomo": tomo, "m": m, "flag": flag, "N": N} for N in tiers(tier, [2], [2, 3, 4])], ob_cov, 3)
            for mode in ("var", "qoperation"):
                Ns = tiers(tier, [1], [1, 2]) if tomo == "povmt" else tiers(tier, [1, 2], [1, 2, 3])
                out += specs("C19.mse_linear", [{"tomo": tomo, "m": m, "flag": flag, "N": N, "mode": mode} for N in Ns], ob_mse_linear, 10)
            out += specs("C19.fisher", [{"tomo": tomo, "m": m, "flag": flag}], ob_fisher, 4)
            out += specs("C19.crb", [{"tomo": tomo, "m": m, "flag": flag}], ob_crb, 6)
    out += specs("C19.mse_linear", [{"tomo": "povmt", "m": 3, "flag": True, "N": 1, "mode": "qoperation"}], ob_mse_linear, 20)
    # unbalanced testers: the constant part of the predicted distributions differs between schedules
    for tomo, m in [("qst", 0), ("povmt", 2)]:
        for flag in (True, False):
            out += specs("C19.fisher", [{"tomo": tomo, "m": m, "flag": flag, "testers": "mixed"}], ob_fisher, 4)
            out += specs("C19.crb", [{"tomo": tomo, "m": m, "flag": flag, "testers": "mixed"}], ob_crb, 6)
            out += specs("C19.cov", [{"tomo": tomo, "m": m, "flag": flag, "N": 2, "testers": "mixed"}], ob_cov, 3)
            out += specs("C19.mse_linear", [{"tomo": tomo, "m": m, "flag": flag, "N": 1, "mode": md, "testers": "mixed"} for md in ("var", "qoperation")], ob_mse_linear, 10)
    # over-complete tester sets with sample sizes that differ between schedules
    for mode in ("var", "qoperation"):
        out += specs("C19.mse_linear", [{"tomo": "qst", "m": 0, "flag": fl, "N": 1, "mode": mode, "testers": "over", "uneven": True} for fl in (True, False)], ob_mse_linear, 10)
    out += specs("C19.mse_linear", [{"tomo": "povmt", "m": 2, "flag": True, "N": 1, "mode": "qoperation", "testers": "over", "uneven": True}], ob_mse_linear, 10)
    out += specs("C19.helpers", [{"n": n} for n in (2, 3)], ob_helpers, 1)
    out += specs("C19.fisher.boundary", [{}], ob_fisher_boundary, 1)
    out += specs("C19.data_analysis", [{"typ": "state", "m": 0}, {"typ": "povm", "m": 3}] + tiers(tier, [], [{"typ": "mprocess", "m": 2}]), ob_data_analysis, 2)
    return out


if __name__ == "__main__":
    sys.exit(main("C19", "c19"))
