#!/usr/bin/env python
"""C01 -- physicality verdicts match the mathematical definitions at the given tolerance."""
from common import *
from symq import stubs
import itertools

BOX = 10.0
ATOL = ("atol", "real", 1e-13, 1e-2)
BAND = 1e-14      # absolute band around each equality threshold that is outside the claim (float noise of the constants)


def tiers(tier, quick, thorough):
    return quick if tier == "quick" else thorough


def two_sided(label, verdict, dev_list, atol):
    """verdict <=> max(dev) <= atol, outside a thin band around the threshold"""
    small = s_and([SBool.of(d <= atol - BAND) & SBool.of(d >= -(atol - BAND)) for d in dev_list])
    large = s_or([SBool.of(d >= atol + BAND) | SBool.of(d <= -(atol + BAND)) for d in dev_list])
    v = SBool.of(verdict) if not isinstance(verdict, np.ndarray) else SBool.of(nd._all(verdict))
    return [Holds(label + ": definition satisfied => verdict True", implies(small, v)),
            Holds(label + ": definition violated => verdict False", implies(large, ~v))]


def trace_of(vec, B):
    t = 0
    for c, b in zip(flat(vec), B):
        tb = np.trace(b)
        if tb != 0:
            t = t + c * tb
    return t


def as_real(x):
    return Sym.of(x).real if isinstance(x, Sym) else np.real(x)


# ---- equality verdicts --------------------------------------------------------------------------------
def ob_state_eq(sys, default):
    d = DIMS[sys]
    n = d * d
    B = basis_of(sys)

    def run(I):
        from quara.settings import Settings
        c = qenv.csys(sys)
        v = vec_of(I, "v", n)
        st = mk_state(c, v)
        atol = I["atol"]
        if default:
            old = Settings._Settings__atol
            Settings._Settings__atol = atol
            try:
                ver = st.is_trace_one()
                ver2 = st.is_eq_constraint_satisfied()
            finally:
                Settings._Settings__atol = old
        else:
            ver = st.is_trace_one(atol)
            ver2 = st.is_eq_constraint_satisfied(atol)
        dev = as_real(trace_of(v, B)) - 1
        return two_sided("is_trace_one", ver, [dev], atol) + [Holds("is_eq_constraint_satisfied == is_trace_one", iff(ver, ver2))]
    return FnOb(reals("v", n, -BOX, BOX) + [ATOL], run, max_paths=50)


def ob_povm_eq(sys, m):
    d = DIMS[sys]
    n = d * d
    B = basis_of(sys)

    def run(I):
        c = qenv.csys(sys)
        vecs = [vec_of(I, f"v{k}_", n) for k in range(m)]
        pv = mk_povm(c, vecs)
        atol = I["atol"]
        ver = pv.is_identity_sum(atol)
        ver2 = pv.is_eq_constraint_satisfied(atol)
        tot = vecs[0]
        for k in range(1, m):
            tot = tot + vecs[k]
        S = refs.ref_matrix(tot, B)
        devs = []
        for r in range(d):
            for s_ in range(d):
                e = Sym.of(S[r, s_]) - (1.0 if r == s_ else 0.0)
                devs.append(e.re_sym())
                if e.im.t:
                    devs.append(e.im_sym())
        # numpy compares complex entries by modulus; real and imaginary deviations both within atol/sqrt2 => inside,
        # one of them beyond atol => outside (the region in between is outside the claim for complex entries)
        small = s_and([SBool.of(x <= (atol - BAND) * 0.7) & SBool.of(x >= -(atol - BAND) * 0.7) for x in devs])
        large = s_or([SBool.of(x >= atol + BAND) | SBool.of(x <= -(atol + BAND)) for x in devs])
        v = SBool.of(ver)
        return [Holds("is_identity_sum: sum == I within atol => True", implies(small, v)),
                Holds("is_identity_sum: some entry of sum - I beyond atol => False", implies(large, ~v)),
                Holds("is_eq_constraint_satisfied == is_identity_sum", iff(ver, ver2))]
    inp = []
    for k in range(m):
        inp += reals(f"v{k}_", n, -BOX, BOX)
    return FnOb(inp + [ATOL], run, max_paths=50, expect_nonlinear=True)


def ob_gate_tp(sys):
    d = DIMS[sys]
    n = d * d
    c0 = None

    def run(I):
        from quara.objects import gate as G
        c = qenv.csys(sys)
        B = qenv.dense_basis(c) if sys in ("Q1u", "Q1h", "Q1x", "Q2x") else basis_of(sys)
        hs = mat_of(I, "h", n, n)
        g = mk_gate(c, hs)
        atol = I["atol"]
        ver = g.is_tp(atol)
        ver2 = G.is_tp(c, hs, atol)
        ver3 = g.is_eq_constraint_satisfied(atol)
        # trace preservation from the definition, whatever shortcut the library takes: Tr[A(B_b)] - Tr[B_b] with A(B_b) = sum_a hs_ab B_a
        # (the library's own basis classification is NOT consulted)
        devs = []
        for b in range(n):
            t = 0
            for a in range(n):
                ta = np.trace(B[a])
                if abs(ta) > 1e-12:
                    t = t + hs[a, b] * ta
            devs.append(as_real(t - np.trace(B[b])))
        scale = max(abs(np.trace(B[a])) for a in range(n))
        ident_first = bool(np.allclose(B[0], np.eye(d) / np.sqrt(d))) and all(np.allclose(b_, b_.conj().T) for b_ in B) and \
            bool(np.allclose([[np.trace(x_.conj().T @ y_) for y_ in B] for x_ in B], np.eye(n)))
        if ident_first:
            # orthonormal identity-first basis: Tr B_0 = sqrt(d); the library tests the first HS row itself, i.e. the deviations divided by sqrt(d)
            devs = [x / scale for x in devs]
        return two_sided("is_tp", ver, devs, atol) + [Holds("gate.is_tp == Gate.is_tp == is_eq_constraint_satisfied", iff(ver, ver2) & iff(ver, ver3))]
    return FnOb(reals("h", n * n, -BOX, BOX) + [ATOL], run, max_paths=100)


def ob_mprocess_sumtp(sys, m):
    d = DIMS[sys]
    n = d * d

    def run(I):
        c = qenv.csys(sys)
        hss = [mat_of(I, f"h{k}_", n, n) for k in range(m)]
        mp = mk_mprocess(c, hss)
        atol = I["atol"]
        ver = mp.is_sum_tp(atol)
        ver2 = mp.is_eq_constraint_satisfied(atol)
        devs = []
        for j in range(n):
            t = -(1.0 if j == 0 else 0.0)
            for k in range(m):
                t = t + hss[k][0, j]
            devs.append(t)
        return two_sided("is_sum_tp", ver, devs, atol) + [Holds("is_eq_constraint_satisfied == is_sum_tp", iff(ver, ver2))]
    inp = []
    for k in range(m):
        inp += reals(f"h{k}_", n * n, -BOX, BOX)
    return FnOb(inp + [ATOL], run, max_paths=50)


# ---- inequality verdicts (spectral parametrisation) ---------------------------------------------------------
def _frames(dd):
    return dict(refs.unitary_library(dd))


def psd_spec(ws, atol):
    return s_and([SBool.of(w >= -atol) for w in ws])


def ob_state_ineq(sys, vname):
    d = DIMS[sys]
    B = basis_of(sys)
    V = _frames(d)[vname]

    def run(I):
        c = qenv.csys(sys)
        w = [I[f"w{i}"] for i in range(d)]
        rho = stubs.spectral(w, V, "rho")
        vec = refs.ref_vec(rho, B).real
        st = mk_state(c, vec)
        atol = I["atol"]
        ver = st.is_positive_semidefinite(atol)
        ver2 = st.is_ineq_constraint_satisfied(atol)
        return [Holds("is_positive_semidefinite <=> min eigenvalue >= -atol", iff(ver, psd_spec(w, atol))),
                Holds("is_ineq_constraint_satisfied agrees", iff(ver, ver2))]
    return FnOb([(f"w{i}", "real", -BOX, BOX) for i in range(d)] + [ATOL], run,
                assume=lambda I: stubs.ascending([I[f"w{i}"] for i in range(d)]), max_paths=300,
                stubs=["np.linalg.eigvalsh: spectral parametrisation, frame " + vname],
                outside=["eigenvalue accuracy of LAPACK at the threshold", "eigenvector frames outside the library"])


def ob_state_physical(sys, vname, ctor):
    """is_physical(atol_eq, atol_ineq) == (|tr-1|<=atol_eq) and (min eig >= -atol_ineq) with two independent tolerances;
    ctor: State(..., is_physicality_required=True) raises ValueError exactly when not physical at the global tolerance"""
    d = DIMS[sys]
    B = basis_of(sys)
    V = _frames(d)[vname]

    def run(I):
        from quara.settings import Settings
        from quara.objects.state import State
        c = qenv.csys(sys)
        w = [I[f"w{i}"] for i in range(d)]
        rho = stubs.spectral(w, V, "rho")
        vec = refs.ref_vec(rho, B).real
        ae, ai = I["atol_eq"], I["atol_ineq"]
        tr = 0
        for x in w:
            tr = tr + x
        dev = tr - 1
        eq_in = SBool.of(dev <= ae - BAND) & SBool.of(dev >= -(ae - BAND))
        eq_out = SBool.of(dev >= ae + BAND) | SBool.of(dev <= -(ae + BAND))
        psd = psd_spec(w, ai)
        if not ctor:
            st = mk_state(c, vec)
            ver = SBool.of(st.is_physical(ae, ai))
            return [Holds("physical definition => is_physical", implies(eq_in & psd, ver)),
                    Holds("trace violated => not is_physical", implies(eq_out, ~ver)),
                    Holds("positivity violated => not is_physical", implies(~psd, ~ver))]
        old = Settings._Settings__atol
        Settings._Settings__atol = ae
        try:
            try:
                State(c, vec, is_physicality_required=True)
                raised = False
            except ValueError:
                raised = True
        finally:
            Settings._Settings__atol = old
        psd_g = psd_spec(w, ae)
        return [Holds("constructor accepts physical states", implies(eq_in & psd_g, not raised)),
                Holds("constructor rejects trace violation", implies(eq_out, raised)),
                Holds("constructor rejects negative eigenvalue", implies(~psd_g, raised))]
    return FnOb([(f"w{i}", "real", -BOX, BOX) for i in range(d)] + [("atol_eq", "real", 1e-13, 1e-2), ("atol_ineq", "real", 1e-13, 1e-2)], run,
                assume=lambda I: stubs.ascending([I[f"w{i}"] for i in range(d)]), max_paths=400,
                stubs=["np.linalg.eigvalsh: spectral parametrisation, frame " + vname])


def ob_povm_ineq(sys, m, vname):
    d = DIMS[sys]
    B = basis_of(sys)
    V = _frames(d)[vname]
    Vs = [V, V.conj().T.copy(), V @ V][:m] + [V] * max(0, m - 3)

    def run(I):
        c = qenv.csys(sys)
        atol = I["atol"]
        vecs, allw = [], []
        for k in range(m):
            w = [I[f"w{k}_{i}"] for i in range(d)]
            E = stubs.spectral(w, Vs[k], f"E{k}")
            vecs.append(refs.ref_vec(E, B).real)
            allw.append(w)
        pv = mk_povm(c, vecs)
        ver = pv.is_positive_semidefinite(atol)
        ver2 = pv.is_ineq_constraint_satisfied(atol)
        spec = s_and([psd_spec(w, atol) for w in allw])
        return [Holds("Povm.is_positive_semidefinite <=> every element's min eigenvalue >= -atol", iff(ver, spec)),
                Holds("is_ineq_constraint_satisfied agrees", iff(ver, ver2))]

    def assume(I):
        out = []
        for k in range(m):
            out += stubs.ascending([I[f"w{k}_{i}"] for i in range(d)])
        return out
    inp = []
    for k in range(m):
        inp += [(f"w{k}_{i}", "real", -BOX, BOX) for i in range(d)]
    return FnOb(inp + [ATOL], run, assume=assume, max_paths=1500, explore_budget=300,
                stubs=["np.linalg.eigvalsh: spectral parametrisation, frames derived from " + vname])


def ob_gate_cp(sys, vname, what):
    """is_cp <=> Choi min eigenvalue >= -atol; what='physical': Gate.is_physical(atol_eq, atol_ineq) and constructor"""
    d = DIMS[sys]
    n = d * d
    B = basis_of(sys)
    V = _frames(n)[vname]

    def run(I):
        from quara.objects import gate as G
        c = qenv.csys(sys)
        w = [I[f"w{i}"] for i in range(n)]
        C = stubs.spectral(w, V, "choi")
        hs = refs.ref_hs_from_choi(C, B).real
        g = mk_gate(c, hs)
        if what == "cp":
            atol = I["atol"]
            ver = g.is_cp(atol)
            return [Holds("is_cp <=> min Choi eigenvalue >= -atol", iff(ver, psd_spec(w, atol))),
                    Holds("gate.is_cp / is_ineq_constraint_satisfied agree", iff(ver, G.is_cp(c, hs, atol)) & iff(ver, g.is_ineq_constraint_satisfied(atol)))]
        ae, ai = I["atol_eq"], I["atol_ineq"]
        devs = [hs[0, j] - (1.0 if j == 0 else 0.0) for j in range(n)]
        eq_in = s_and([SBool.of(x <= ae - BAND) & SBool.of(x >= -(ae - BAND)) for x in devs])
        eq_out = s_or([SBool.of(x >= ae + BAND) | SBool.of(x <= -(ae + BAND)) for x in devs])
        ver = SBool.of(g.is_physical(ae, ai))
        psd = psd_spec(w, ai)
        return [Holds("CPTP definition => is_physical", implies(eq_in & psd, ver)),
                Holds("TP violated => not is_physical", implies(eq_out, ~ver)),
                Holds("CP violated => not is_physical", implies(~psd, ~ver))]
    tol_in = [ATOL] if what == "cp" else [("atol_eq", "real", 1e-13, 1e-2), ("atol_ineq", "real", 1e-13, 1e-2)]
    return FnOb([(f"w{i}", "real", -BOX, BOX) for i in range(n)] + tol_in, run,
                assume=lambda I: stubs.ascending([I[f"w{i}"] for i in range(n)]), max_paths=2500, explore_budget=400,
                stubs=["np.linalg.eigvalsh: spectral parametrisation of the Choi matrix, frame " + vname])


def ob_mprocess_cp(sys, m, vname):
    d = DIMS[sys]
    n = d * d
    B = basis_of(sys)
    V = _frames(n)[vname]
    Vs = [V, V.conj().T.copy(), V @ V][:m]

    def run(I):
        c = qenv.csys(sys)
        atol = I["atol"]
        hss, allw = [], []
        for k in range(m):
            w = [I[f"w{k}_{i}"] for i in range(n)]
            C = stubs.spectral(w, Vs[k], f"choi{k}")
            hss.append(refs.ref_hs_from_choi(C, B).real)
            allw.append(w)
        mp = mk_mprocess(c, hss)
        ver = mp.is_cp(atol)
        spec = s_and([psd_spec(w, atol) for w in allw])
        return [Holds("MProcess.is_cp <=> every outcome's Choi min eigenvalue >= -atol", iff(ver, spec)),
                Holds("is_ineq_constraint_satisfied agrees", iff(ver, mp.is_ineq_constraint_satisfied(atol)))]

    def assume(I):
        out = []
        for k in range(m):
            out += stubs.ascending([I[f"w{k}_{i}"] for i in range(n)])
        return out
    inp = []
    for k in range(m):
        inp += [(f"w{k}_{i}", "real", -BOX, BOX) for i in range(n)]
    return FnOb(inp + [ATOL], run, assume=assume, max_paths=3000, explore_budget=400,
                stubs=["np.linalg.eigvalsh: spectral parametrisation, frames derived from " + vname])


# ---- monotonicity, origin / zero objects ------------------------------------------------------------------
def ob_mono(typ, sys, vname):
    """loosening the tolerance never turns a true verdict false: verdict(a1) => verdict(a2) for a1 <= a2"""
    d = DIMS[sys]
    B = basis_of(sys)
    dd = d if typ == "state" else d * d
    V = _frames(dd)[vname]

    def run(I):
        c = qenv.csys(sys)
        w = [I[f"w{i}"] for i in range(dd)]
        M = stubs.spectral(w, V, "M")
        if typ == "state":
            obj = mk_state(c, refs.ref_vec(M, B).real)
        else:
            obj = mk_gate(c, refs.ref_hs_from_choi(M, B).real)
        a1, a2 = I["a1"], I["a2"]
        out = []
        for name in ("is_eq_constraint_satisfied", "is_ineq_constraint_satisfied"):
            v1 = SBool.of(getattr(obj, name)(a1))
            v2 = SBool.of(getattr(obj, name)(a2))
            out.append(Holds(f"{name}: verdict(a1) => verdict(a2)", implies(v1, v2)))
        p1 = SBool.of(obj.is_physical(a1, a1))
        p2 = SBool.of(obj.is_physical(a2, a2))
        out.append(Holds("is_physical: verdict(a1) => verdict(a2)", implies(p1, p2)))
        return out

    def assume(I):
        return stubs.ascending([I[f"w{i}"] for i in range(dd)]) + [SBool.of(I["a1"] <= I["a2"])]
    return FnOb([(f"w{i}", "real", -BOX, BOX) for i in range(dd)] + [("a1", "real", 1e-13, 1e-2), ("a2", "real", 1e-13, 1e-2)], run,
                assume=assume, max_paths=3000, explore_budget=400,
                stubs=["np.linalg.eigvalsh: spectral parametrisation, frame " + vname])


def ob_origin(typ, sys, m, flag):
    """the origin object of any object is physical for every tolerance; the zero object is the zero operator"""
    d = DIMS[sys]
    n = d * d
    ns = {"state": n, "povm": m * n, "gate": n * n, "mprocess": m * n * n}[typ]

    def run(I):
        import c03
        c = qenv.csys(sys)
        x = vec_of(I, "x", ns)
        obj = c03.make_obj(typ, c, x, m, flag)
        org = obj.generate_origin_obj()
        zero = obj.generate_zero_obj()
        atol = I["atol"]
        out = [Holds("origin object is physical for every atol", SBool.of(org.is_physical(atol, atol))),
               Eq("zero object is the zero operator", zero.to_stacked_vector(), np.zeros(ns), 0.0),
               Holds("types", type(org) is type(obj) and type(zero) is type(obj)),
               Holds("origin keeps flag", org.on_para_eq_constraint == flag)]
        return out
    return FnOb(reals("x", ns, -BOX, BOX) + [ATOL], run, max_paths=200)


def obligations(tier):
    out = []
    lin = tiers(tier, ["Q1", "T1"], ["Q1", "T1", "Q2", "QT"])
    out += specs("C01.state.eq", [{"sys": s, "default": dflt} for s in lin for dflt in (False, True)], ob_state_eq)
    out += specs("C01.povm.eq", [{"sys": s, "m": m} for s in tiers(tier, ["Q1", "T1"], ["Q1", "T1", "Q2"]) for m in tiers(tier, [2, 3], [2, 3, 4])], ob_povm_eq, 2)
    out += specs("C01.gate.tp", [{"sys": s} for s in tiers(tier, ["Q1", "T1", "Q1u", "Q1h", "Q1x", "Q2x"], ["Q1", "T1", "Q2", "Q1u", "Q1h", "Q1x", "Q2x"])], ob_gate_tp, 2)
    out += specs("C01.mprocess.sumtp", [{"sys": s, "m": m} for s in tiers(tier, ["Q1"], ["Q1", "T1"]) for m in tiers(tier, [2, 3], [2, 3, 4])], ob_mprocess_sumtp, 2)
    for s in tiers(tier, ["Q1", "T1"], ["Q1", "T1", "Q2", "QT"]):
        names = [nm for nm, _ in refs.unitary_library(DIMS[s])]
        for vn in (names if tier == "thorough" else names[-1:]):
            out += specs("C01.state.ineq", [{"sys": s, "vname": vn}], ob_state_ineq, 2)
    for s in tiers(tier, ["Q1"], ["Q1", "T1"]):
        vn = refs.unitary_library(DIMS[s])[-1][0]
        out += specs("C01.state.physical", [{"sys": s, "vname": vn, "ctor": ct} for ct in (False, True)], ob_state_physical, 3)
    for s, m in tiers(tier, [("Q1", 2), ("Q1", 3)], [("Q1", 2), ("Q1", 3), ("Q1", 4), ("T1", 2), ("Q2", 2)]):
        vn = refs.unitary_library(DIMS[s])[-1][0]
        out += specs("C01.povm.ineq", [{"sys": s, "m": m, "vname": vn}], ob_povm_ineq, 4)
    for s in tiers(tier, ["Q1"], ["Q1", "T1"]):
        names = [nm for nm, _ in refs.unitary_library(DIMS[s] ** 2)]
        for vn in (names if (tier == "thorough" and s == "Q1") else names[-1:]):
            out += specs("C01.gate.cp", [{"sys": s, "vname": vn, "what": "cp"}], ob_gate_cp, 6)
        out += specs("C01.gate.physical", [{"sys": s, "vname": names[-1], "what": "physical"}], ob_gate_cp, 6)
    out += specs("C01.mprocess.cp", [{"sys": "Q1", "m": m, "vname": "rot(x)cplx"} for m in tiers(tier, [2], [2, 3])], ob_mprocess_cp, 8)
    out += specs("C01.mono", [{"typ": "state", "sys": "Q1", "vname": "cplx"}, {"typ": "gate", "sys": "Q1", "vname": "rot(x)cplx"}]
                 + tiers(tier, [], [{"typ": "state", "sys": "T1", "vname": "perm.rot"}, {"typ": "state", "sys": "Q2", "vname": "rot(x)cplx"}]), ob_mono, 8)
    for typ in ("state", "povm", "gate", "mprocess"):
        for s in tiers(tier, ["Q1"], ["Q1", "T1"]):
            for m in ([0] if typ in ("state", "gate") else tiers(tier, [2, 3], [2, 3, 4])):
                if typ == "mprocess" and s == "T1" and m > 2:
                    continue
                for flag in (True, False):
                    out += specs("C01.origin", [{"typ": typ, "sys": s, "m": m, "flag": flag}], ob_origin, 2)
    return out


if __name__ == "__main__":
    sys.exit(main("C01", "c01"))
