#!/usr/bin/env python
"""C03 -- optimisation variables and objects are in one-to-one correspondence."""
from common import *

BOX = 1000.0


def tiers(tier, quick, thorough):
    return quick if tier == "quick" else thorough


def n_stacked(typ, d, m):
    n = d * d
    return {"state": n, "povm": m * n, "gate": n * n, "mprocess": m * n * n}[typ]


def n_var(typ, d, m, flag):
    n = d * d
    if not flag:
        return n_stacked(typ, d, m)
    return {"state": n - 1, "povm": (m - 1) * n, "gate": n * n - n, "mprocess": m * n * n - n}[typ]


MP_SHAPE = {"v": None}     # outcome shape given to MProcess objects (None: the default (m,)); set per obligation by with_shape


def with_shape(maker):
    """obligation maker with an optional `shape` entry: MProcess objects are built with that multi-axis outcome shape
    (every obligation runs in its own process, so the module-level setting is private to it)"""
    def make(shape=None, **cfg):
        MP_SHAPE["v"] = tuple(shape) if shape else None
        return maker(**cfg)
    return make


def make_obj(typ, c, x, m, flag):
    """object of the given type from a stacked parameter vector x"""
    d = c.dim
    n = d * d
    if typ == "state":
        return mk_state(c, x, on_para_eq_constraint=flag)
    if typ == "povm":
        return mk_povm(c, [x[k * n:(k + 1) * n] for k in range(m)], on_para_eq_constraint=flag)
    if typ == "gate":
        return mk_gate(c, x.reshape(n, n), on_para_eq_constraint=flag)
    kw = {"shape": MP_SHAPE["v"]} if MP_SHAPE["v"] else {}
    return mk_mprocess(c, [x[k * n * n:(k + 1) * n * n].reshape(n, n) for k in range(m)], on_para_eq_constraint=flag, **kw)


def ref_stacked_from_var(typ, d, m, flag, v):
    """the documented correspondence, written independently: implied entries filled in"""
    n = d * d
    v = list(flat(v))
    if not flag:
        return v
    if typ == "state":
        return [1 / np.sqrt(d)] + v
    if typ == "povm":
        last = []
        for j in range(n):
            tot = np.sqrt(d) if j == 0 else 0.0
            for k in range(m - 1):
                tot = tot - v[k * n + j]
            last.append(tot)
        return v + last
    if typ == "gate":
        return [1.0] + [0.0] * (n - 1) + v
    # mprocess: first row of the last HS = e0 - sum of the first rows of the others
    first = []
    for j in range(n):
        tot = 1.0 if j == 0 else 0.0
        for k in range(m - 1):
            tot = tot - v[k * n * n + j]
        first.append(tot)
    pos = (m - 1) * n * n
    return v[:pos] + first + v[pos:]


def cls_of(typ):
    from quara.objects.state import State
    from quara.objects.povm import Povm
    from quara.objects.gate import Gate
    from quara.objects.mprocess import MProcess
    return {"state": State, "povm": Povm, "gate": Gate, "mprocess": MProcess}[typ]


def ob_roundtrip(typ, sys, m, flag):
    d = DIMS[sys]
    ns, nv = n_stacked(typ, d, m), n_var(typ, d, m, flag)

    def run(I):
        c = qenv.csys(sys)
        x = vec_of(I, "x", ns)
        v = vec_of(I, "v", nv)
        cls = cls_of(typ)
        out = []
        # (a) var -> object -> var, and the object's stacked vector is the documented one
        tmpl = make_obj(typ, c, x, m, flag)
        obj = tmpl.generate_from_var(v)
        ref = ref_stacked_from_var(typ, d, m, flag, v)
        out.append(Eq("generate_from_var(v).to_stacked_vector()==documented", obj.to_stacked_vector(), np.array(ref, dtype=object)))
        out.append(Eq("generate_from_var(v).to_var()==v", obj.to_var(), v))
        out.append(Holds("flag propagated", obj.on_para_eq_constraint == flag))
        # (b) static conversions agree with that correspondence
        sv = cls.convert_var_to_stacked_vector(c, v, on_para_eq_constraint=flag)
        out.append(Eq("convert_var_to_stacked_vector(v)==documented", sv, np.array(ref, dtype=object)))
        out.append(Eq("convert_stacked_vector_to_var(convert_var_to_stacked_vector(v))==v",
                      cls.convert_stacked_vector_to_var(c, sv, on_para_eq_constraint=flag), v))
        # (c) object -> var -> object for an arbitrary object (flag False) / an object on the constraint (flag True)
        obj2 = obj.generate_from_var(obj.to_var())
        out.append(Eq("obj->var->obj", obj2.to_stacked_vector(), obj.to_stacked_vector()))
        xv = tmpl.to_var()
        out.append(Holds("len(to_var())==expected number of variables", len(xv) == nv))
        out.append(Eq("convert_stacked_vector_to_var(x)==obj(x).to_var()",
                      cls.convert_stacked_vector_to_var(c, x, on_para_eq_constraint=flag), xv))
        out.append(Eq("obj(x).to_stacked_vector()==x", tmpl.to_stacked_vector(), x))
        if not flag:
            out.append(Eq("flag=False: to_var is the stacked vector", xv, x))
        return out
    return FnOb(reals("x", ns, -BOX, BOX) + reals("v", nv, -BOX, BOX), run)


def ob_generate_flags(typ, sys, m, tflag, aflag):
    """generate_from_var with explicit keyword arguments: each given argument overrides the template's attribute, None keeps it -- in
    particular an explicit on_para_eq_constraint different from the template's decides how the variables are read"""
    d = DIMS[sys]
    eff = tflag if aflag is None else aflag
    ns, nv = n_stacked(typ, d, m), n_var(typ, d, m, eff)

    def run(I):
        c = qenv.csys(sys)
        v = vec_of(I, "v", nv)
        tmpl = make_obj(typ, c, (SymNd([0.0] * ns) if nd.has_sym(v) else np.zeros(ns)), m, tflag)
        out = []
        obj = tmpl.generate_from_var(v, on_para_eq_constraint=aflag)
        ref = ref_stacked_from_var(typ, d, m, eff, v)
        out.append(Holds("on_para_eq_constraint of the result: the argument if given, else the template's", obj.on_para_eq_constraint == eff))
        out.append(Eq("stacked vector == documented correspondence under the effective flag", obj.to_stacked_vector(), np.array(ref, dtype=object)))
        out.append(Eq("to_var() == v", obj.to_var(), v))
        for kw, val in (("on_algo_eq_constraint", not tmpl.on_algo_eq_constraint), ("on_algo_ineq_constraint", not tmpl.on_algo_ineq_constraint),
                        ("is_estimation_object", not tmpl.is_estimation_object), ("eps_proj_physical", 3e-7)):
            o2 = tmpl.generate_from_var(v, on_para_eq_constraint=aflag, **{kw: val})
            out.append(Holds(f"{kw} given: taken from the argument", getattr(o2, kw) == val))
            out.append(Holds(f"{kw} not given: the template's", getattr(obj, kw) == getattr(tmpl, kw)))
            out.append(Holds(f"{kw} given: on_para_eq_constraint unaffected", o2.on_para_eq_constraint == eff))
        return out
    return FnOb(reals("v", nv, -BOX, BOX), run)


def fwd_index(typ, c, tmpl, i, flag):
    """variable index -> flat index into the stacked vector, through the library's index map"""
    from quara.objects import state as S, povm as P, gate as G, mprocess as MP
    n = c.dim ** 2
    if typ == "state":
        return S.convert_var_index_to_state_index(i, flag), None
    if typ == "povm":
        k, j = P.convert_var_index_to_povm_index(c, list(tmpl.vecs), i, flag)
        return k * n + j, (k, j)
    if typ == "gate":
        r, col = G.convert_var_index_to_gate_index(c, i, flag)
        return r * n + col, (r, col)
    h, r, col = MP.convert_var_index_to_mprocess_index(c, tmpl.hss, i, flag)
    return h * n * n + r * n + col, (h, r, col)


def inv_index(typ, c, tmpl, idx, flag):
    from quara.objects import state as S, povm as P, gate as G, mprocess as MP
    if typ == "state":
        return S.convert_state_index_to_var_index(idx, flag)
    if typ == "povm":
        return P.convert_povm_index_to_var_index(c, list(tmpl.vecs), idx, flag)
    if typ == "gate":
        return G.convert_gate_index_to_var_index(c, idx, flag)
    return MP.convert_mprocess_index_to_var_index(c, idx, tmpl.hss, flag)


def ob_index(typ, sys, m, flag):
    """symbolic variable index i: inverse(fwd(i)) == i, fwd(i) in range, the object's entry at fwd(i) holds var[i],
    implied entries are never pointed at"""
    d = DIMS[sys]
    n = d * d
    ns, nv = n_stacked(typ, d, m), n_var(typ, d, m, flag)

    def run(I):
        c = qenv.csys(sys)
        v = vec_of(I, "v", nv)
        i = I["i"]
        tmpl0 = make_obj(typ, c, (SymNd([0.0] * ns) if isinstance(i, Sym) else np.zeros(ns)), m, flag)
        obj = tmpl0.generate_from_var(v)
        f, tup = fwd_index(typ, c, obj, i, flag)
        out = [Holds("fwd(i) in range", in_range(f, 0, ns))]
        back = inv_index(typ, c, obj, f if typ == "state" else tup, flag)
        out.append(Holds("inverse(fwd(i))==i", SBool.of(back == i)))
        stacked = list(flat(obj.to_stacked_vector()))
        out.append(Eq("object entry at fwd(i) == var[i]", select(stacked, f), select(list(flat(v)), i), 0.0))
        return out
    return FnOb(reals("v", nv, -BOX, BOX) + [("i", "int", 0, nv - 1)], run, max_paths=64)


def ob_index_inv(typ, sys, m, flag):
    """symbolic object index (of a non-implied entry): fwd(inverse(idx)) == idx"""
    d = DIMS[sys]
    n = d * d
    ns, nv = n_stacked(typ, d, m), n_var(typ, d, m, flag)

    def inputs():
        if typ == "state":
            return [("a", "int", 1 if flag else 0, n - 1)]
        if typ == "povm":
            return [("a", "int", 0, (m - 2 if flag else m - 1)), ("b", "int", 0, n - 1)]
        if typ == "gate":
            return [("a", "int", 1 if flag else 0, n - 1), ("b", "int", 0, n - 1)]
        return [("a", "int", 0, m - 1), ("b", "int", 0, n - 1), ("c", "int", 0, n - 1)]

    def assume(I):
        if typ == "mprocess" and flag:
            return [SBool.of(I["a"] < m - 1) | SBool.of(I["b"] >= 1)]
        return []

    def run(I):
        c = qenv.csys(sys)
        tmpl = make_obj(typ, c, np.zeros(ns), m, flag)
        idx = I["a"] if typ == "state" else tuple(I[k] for k in "abc"[:{"povm": 2, "gate": 2, "mprocess": 3}[typ]])
        vi = inv_index(typ, c, tmpl, idx, flag)
        out = [Holds("inverse(idx) in range", in_range(vi, 0, nv))]
        f, tup = fwd_index(typ, c, tmpl, vi, flag)
        if typ == "state":
            out.append(Holds("fwd(inverse(idx))==idx", SBool.of(f == idx)))
        else:
            out.append(Holds("fwd(inverse(idx))==idx", s_and([SBool.of(x == y) for x, y in zip(tup, idx)])))
        return out
    return FnOb(inputs(), run, assume=assume, max_paths=64)


def ob_gradient(typ, sys, m, flag):
    """calc_gradient(i) is the one-hot object at fwd(i)"""
    d = DIMS[sys]
    ns, nv = n_stacked(typ, d, m), n_var(typ, d, m, flag)

    def run(I):
        c = qenv.csys(sys)
        i = I["i"]
        tmpl = make_obj(typ, c, np.zeros(ns), m, flag)
        g = tmpl.calc_gradient(i)
        f, _ = fwd_index(typ, c, tmpl, i, flag)
        st = list(flat(g.to_stacked_vector()))
        onehot = [ite(SBool.of(f == k), 1.0, 0.0) for k in range(ns)]
        return [Eq("calc_gradient(i) == e_fwd(i)", np.array(st, dtype=object), np.array(onehot, dtype=object), 0.0),
                Holds("gradient object keeps the flag", g.on_para_eq_constraint == flag)]
    return FnOb([("i", "int", 0, nv - 1)], run, max_paths=300)


def _mixed_set(c, I, spec, flagpat):
    """spec: list of (type, m); builds a SetQOperations with symbolic stacked parameters"""
    from quara.objects.qoperations import SetQOperations
    d = c.dim
    groups = {"state": [], "gate": [], "povm": [], "mprocess": []}
    for t, (typ, m) in enumerate(spec):
        flag = flagpat[t % len(flagpat)]
        ns = n_stacked(typ, d, m)
        x = vec_of(I, f"p{t}_", ns)
        groups[typ].append(make_obj(typ, c, x, m, flag))
    return SetQOperations(states=groups["state"], gates=groups["gate"], povms=groups["povm"], mprocesses=groups["mprocess"]), groups


SETS = {
    "A": [("state", 0), ("state", 0), ("povm", 2), ("povm", 3), ("gate", 0), ("mprocess", 2)],
    "B": [("povm", 3), ("povm", 2), ("mprocess", 2), ("mprocess", 3), ("state", 0)],
    "C": [("gate", 0), ("gate", 0), ("state", 0), ("povm", 4)],
}


def ob_set_index(setname, sys, flags, grow=None):
    """SetQOperations: index_var_total_from_local_info / local_info_from_index_var_total are mutually inverse and
    var_total()[total index] is the variable `local` of operation `k` of that type"""
    spec = SETS[setname]
    d = DIMS[sys]
    flagpat = {"TF": [True, False], "FT": [False, True], "T": [True], "F": [False]}[flags]
    order = ["state", "gate", "povm", "mprocess"]
    sizes = {typ: [n_var(typ, d, m, flagpat[t % len(flagpat)]) for t, (ty, m) in enumerate(spec) if ty == typ] for typ in order}
    total = sum(sum(v) for v in sizes.values())
    if grow:
        # `grow`: after a first use (both lookups), one more operation of that type is added through the property setter: every map
        # must describe the CURRENT contents (second use of the same object)
        first_t = next(t for t, (ty, m) in enumerate(spec) if ty == grow)
        total += n_var(grow, d, spec[first_t][1], flagpat[first_t % len(flagpat)])

    def inputs():
        out = [("t", "int", 0, total - 1)]
        for t, (typ, m) in enumerate(spec):
            out += reals(f"p{t}_", n_stacked(typ, d, m), -BOX, BOX)
        return out

    def run(I):
        c = qenv.csys(sys)
        sq, groups = _mixed_set(c, I, spec, flagpat)
        if grow:
            sq.local_info_from_index_var_total(0)
            sq.index_var_total_from_local_info(grow, 0, 0)
            attr = {"state": "states", "gate": "gates", "povm": "povms", "mprocess": "mprocesses"}[grow]
            extra = groups[grow][0].copy()
            newlist = list(getattr(sq, attr)) + [extra]
            setattr(sq, attr, newlist)
            groups = dict(groups)
            groups[grow] = newlist
        t = I["t"]
        vt = sq.var_total()
        out = [Holds("size_var_total", sq.size_var_total() == total), Holds("len(var_total)", len(vt) == total)]
        info = sq.local_info_from_index_var_total(t)
        mode, k, loc = info["mode"], info["index_operations"], info["index_var_local"]
        ops = groups[mode]
        out.append(Holds("operation index in range", in_range(k, 0, len(ops))))
        ki = int(k)   # forks when symbolic
        own = list(flat(ops[ki].to_var()))
        out.append(Holds("local index in range", in_range(loc, 0, len(own))))
        out.append(Eq("var_total[t] == that operation's variable", select(list(flat(vt)), t), select(own, loc), 0.0))
        back = sq.index_var_total_from_local_info(mode, k, loc)
        out.append(Holds("index_var_total_from_local_info(local_info(t))==t", SBool.of(back == t)))
        return out
    return FnOb(inputs(), run, max_paths=400)


def ob_set_from_var_total(setname, sys, flags):
    """set_qoperations_from_var_total re-slices a symbolic var_total into the right operations"""
    spec = SETS[setname]
    d = DIMS[sys]
    flagpat = {"TF": [True, False], "FT": [False, True], "T": [True], "F": [False]}[flags]
    order = ["state", "gate", "povm", "mprocess"]
    seq = [(t, typ, m) for typ in order for t, (ty, m) in enumerate(spec) if ty == typ]
    total = sum(n_var(typ, d, m, flagpat[t % len(flagpat)]) for t, typ, m in seq)

    def inputs():
        out = reals("w", total, -BOX, BOX)
        return out

    def run(I):
        c = qenv.csys(sys)
        zeros = {}
        for t, (typ, m) in enumerate(spec):
            for j in range(n_stacked(typ, d, m)):
                zeros[f"p{t}_{j}"] = 0.0
        sq, groups = _mixed_set(c, zeros, spec, flagpat)
        w = vec_of(I, "w", total)
        new = sq.set_qoperations_from_var_total(w)
        out = [Eq("var_total of the new set == w", new.var_total(), w)]
        pos = 0
        newgroups = {"state": new.states, "gate": new.gates, "povm": new.povms, "mprocess": new.mprocesses}
        count = {k: 0 for k in order}
        for t, typ, m in seq:
            flag = flagpat[t % len(flagpat)]
            nv = n_var(typ, d, m, flag)
            piece = w[pos:pos + nv]
            ref = ref_stacked_from_var(typ, d, m, flag, piece)
            ob_ = newgroups[typ][count[typ]]
            out.append(Eq(f"{typ}[{count[typ]}] stacked == documented(w[{pos}:{pos + nv}])", ob_.to_stacked_vector(), np.array(ref, dtype=object)))
            count[typ] += 1
            pos += nv
        return out
    return FnOb(inputs(), run)


def ob_numvar(tomo, sys, m, flag):
    """num_variables of the tomography classes == len(template.to_var()) == number of columns of the model"""
    def run(I):
        import tomo_lib
        qt, tmpl = tomo_lib.build(tomo, sys, m, flag)
        nv = n_var({"qst": "state", "povmt": "povm", "qpt": "gate", "qmpt": "mprocess"}[tomo], DIMS[sys], m, flag)
        return [Holds("num_variables == len(to_var())", qt.num_variables == len(tmpl.to_var())),
                Holds("num_variables == documented", qt.num_variables == nv),
                Holds("matA has one column per variable", qt.calc_matA().shape[1] == nv)]
    return FnOb([], run, tv_points=0)


TYPES = ["state", "povm", "gate", "mprocess"]


def obligations(tier):
    out = []
    systems = tiers(tier, ["Q1", "T1"], ["Q1", "T1", "Q2"])
    for typ in TYPES:
        ms = [0] if typ in ("state", "gate") else tiers(tier, [2, 3], [2, 3, 4, 5])
        for s in systems:
            for m in ms:
                if typ == "mprocess" and DIMS[s] ** 4 * m > (800 if tier == "quick" else 1400):
                    continue
                if typ == "gate" and DIMS[s] > 3 and tier == "quick":
                    continue
                for flag in (True, False):
                    cfg = {"typ": typ, "sys": s, "m": m, "flag": flag}
                    out += specs("C03.roundtrip", [cfg], ob_roundtrip, 2)
        for s in tiers(tier, ["Q1"], ["Q1", "T1"]):
            for m in ([0] if typ in ("state", "gate") else tiers(tier, [2, 3], [2, 3, 5])):
                if typ == "mprocess" and DIMS[s] > 2 and m > 2:
                    continue
                for flag in (True, False):
                    cfg = {"typ": typ, "sys": s, "m": m, "flag": flag}
                    out += specs("C03.index.points", [cfg], ob_index, 3)
                    out += specs("C03.index.inverse", [cfg], ob_index_inv, 1)
                    if DIMS[s] == 2 or typ in ("state", "povm"):
                        out += specs("C03.gradient", [cfg], ob_gradient, 2)
    if tier == "quick":
        # larger-than-qubit index maps (strides d^2 vs 2d differ only beyond one qubit)
        for flag in (True, False):
            out += specs("C03.index.inverse", [{"typ": "gate", "sys": "T1", "m": 0, "flag": flag}], ob_index_inv, 2)
            out += specs("C03.index.points", [{"typ": "gate", "sys": "T1", "m": 0, "flag": flag}], ob_index, 3)
    for typ in TYPES:
        m = 0 if typ in ("state", "gate") else 3
        for tflag in (True, False):
            for aflag in (None, True, False):
                out += specs("C03.generate.flags", [{"typ": typ, "sys": "Q1", "m": m, "tflag": tflag, "aflag": aflag}], ob_generate_flags, 1)
    for sn, fl in tiers(tier, [("A", "TF"), ("B", "FT")], [("A", "TF"), ("A", "FT"), ("B", "FT"), ("B", "T"), ("C", "TF"), ("C", "F")]):
        out += specs("C03.set.index", [{"setname": sn, "sys": "Q1", "flags": fl}], ob_set_index, 6)
        out += specs("C03.set.from_var_total", [{"setname": sn, "sys": "Q1", "flags": fl}], ob_set_from_var_total, 2)
    for g in ("state", "povm", "gate"):
        out += specs("C03.set.index", [{"setname": "A", "sys": "Q1", "flags": "TF", "grow": g}], ob_set_index, 6)
    return out


if __name__ == "__main__":
    sys.exit(main("C03", "c03"))
