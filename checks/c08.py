#!/usr/bin/env python
"""C08 -- the tomography forward model equals the circuit's Born-rule statistics."""
from common import *
import c03, tomo_lib, objlib
import itertools

PMIN = 1e-3
TOMO_TYPE = {"qst": "state", "povmt": "povm", "qpt": "gate", "qmpt": "mprocess"}


def tiers(tier, quick, thorough):
    return quick if tier == "quick" else thorough


def re_(x):
    return Sym.of(x).real if isinstance(x, Sym) else np.real(x)


def unknown_parts(tomo, sysname, m, flag, v):
    """matrices / HS of the unknown object from its variable vector (documented var <-> object correspondence)"""
    d = DIMS[sysname]
    n = d * d
    B = basis_of(sysname)
    st = np.array(c03.ref_stacked_from_var(TOMO_TYPE[tomo], d, m, flag, v), dtype=object)
    if tomo == "qst":
        return refs.ref_matrix(st, B)
    if tomo == "povmt":
        return [refs.ref_matrix(st[k * n:(k + 1) * n], B) for k in range(m)]
    if tomo == "qpt":
        return st.reshape(n, n)
    return [st[k * n * n:(k + 1) * n * n].reshape(n, n) for k in range(m)]


def born_reference(tomo, sysname, m, flag, v, schedules, sel):
    """list over schedules of the list of outcome probabilities, written from the Born rule"""
    B = basis_of(sysname)
    smats = tomo_lib.state_mats(sysname)
    pmats = tomo_lib.povm_mats(sysname)
    unk = unknown_parts(tomo, sysname, m, flag, v)
    out = []
    for sch in schedules:
        if tomo == "qst":
            E = pmats[sel["povms"][sch[1][1]]]
            out.append([re_(refs.tr(refs.mm(e, unk))) for e in E])
        elif tomo == "povmt":
            R = smats[sel["states"][sch[0][1]]]
            out.append([re_(refs.tr(refs.mm(e, R))) for e in unk])
        elif tomo == "qpt":
            R = smats[sel["states"][sch[0][1]]]
            E = pmats[sel["povms"][sch[2][1]]]
            vin = np.array([np.trace(b.conj().T @ R) for b in B]).real
            Rout = refs.ref_matrix(refs.hs_apply(unk, vin), B)
            out.append([re_(refs.tr(refs.mm(e, Rout))) for e in E])
        else:
            R = smats[sel["states"][sch[0][1]]]
            E = pmats[sel["povms"][sch[2][1]]]
            vin = np.array([np.trace(b.conj().T @ R) for b in B]).real
            probs = []
            for hs in unk:                      # process outcome x (slow), POVM outcome y (fast)
                Rout = refs.ref_matrix(refs.hs_apply(hs, vin), B)
                probs += [re_(refs.tr(refs.mm(e, Rout))) for e in E]
            out.append(probs)
    return out


def default_schedules(tomo, sel):
    if tomo == "qst":
        return [[("state", 0), ("povm", j)] for j in range(len(sel["povms"]))]
    if tomo == "povmt":
        return [[("state", i), ("povm", 0)] for i in range(len(sel["states"]))]
    mid = "gate" if tomo == "qpt" else "mprocess"
    return [[("state", i), (mid, 0), ("povm", j)] for i in range(len(sel["states"])) for j in range(len(sel["povms"]))]


def sched_variant(tomo, sel, variant):
    base = default_schedules(tomo, sel)
    if variant == "all":
        return "all", base
    if variant == "perm":
        s = list(reversed(base))[1:] + [base[-1]]
        s = s[2:] + s[:2]
        return s, s
    if variant == "rep":
        s = [base[1], base[0], base[1], base[-1], base[0]]
        return s, s
    if variant == "subset":
        s = base[1::2]
        return s, s
    raise KeyError(variant)


def ob_model(tomo, sysname, m, flag, tester, variant):
    """calc_matA() x + calc_vecB() == Born-rule probabilities in (schedule, outcome) order, for every variable vector x;
    one column per variable; get_coeffs agree"""
    d = DIMS[sysname]
    nv = c03.n_var(TOMO_TYPE[tomo], d, m, flag)
    if tester == "small":
        sel = dict(states=[0, 3, 4], povms=[9, 0]) if sysname == "T1" else dict(states=[0, 5], povms=[4])
    elif tester == "uneven":
        import c09
        sel = c09.uniform_sel(tomo, sysname, "uneven")      # 3-outcome POVMs with elements of unequal trace FIRST in the list
    else:
        sel = (tomo_lib.MIXED if tester == "mixed" else tomo_lib.DEFAULT)[(tomo, sysname)]

    def run(I):
        arg, sched = sched_variant(tomo, sel, variant)
        qt, tmpl = tomo_lib.build(tomo, sysname, m=m, flag=flag, schedules=arg, sel=sel)
        v = vec_of(I, "x", nv)
        A = qt.calc_matA()
        b = qt.calc_vecB()
        model = refs.mm(A, np.asarray(v, dtype=object).reshape(-1, 1)).reshape(-1) + b
        ref = born_reference(tomo, sysname, m, flag, v, sched, sel)
        flat_ref = [p for ps in ref for p in ps]
        out = [Holds("one column per variable", A.shape[1] == nv and qt.num_variables == nv),
               Holds("one row per (schedule, outcome)", A.shape[0] == len(flat_ref) and len(b) == len(flat_ref)),
               Eq("A x + b == Born probabilities in (schedule, outcome) order", model, np.array(flat_ref, dtype=object), 1e-8)]
        # per-schedule accessors: block j of the stacked model (the testers may have different outcome counts)
        pos = 0
        for j, ps in enumerate(ref):
            k = len(ps)
            out.append(Eq(f"get_coeffs_1st_mat({j}) == rows of matA of schedule {j}", qt.get_coeffs_1st_mat(j), np.asarray(A, dtype=object)[pos:pos + k], 0.0))
            out.append(Eq(f"get_coeffs_0th_vec({j}) == entries of vecB of schedule {j}", qt.get_coeffs_0th_vec(j), np.asarray(b, dtype=object)[pos:pos + k], 0.0))
            pos += k
        return out
    return FnOb(reals("x", nv, -10.0, 10.0), run)


def ob_circuit(tomo, sysname, m, tester, variant):
    """generate_prob_dists_sequence(obj) (runs every schedule's circuit through compose_qoperations) == A x + b == Born
    reference, for every object on the equality constraint with outcome probabilities >= 1e-3"""
    d = DIMS[sysname]
    flag = True
    nv = c03.n_var(TOMO_TYPE[tomo], d, m, flag)
    ns = c03.n_stacked(TOMO_TYPE[tomo], d, m)
    sel = (tomo_lib.MIXED if tester == "mixed" else tomo_lib.DEFAULT)[(tomo, sysname)]

    def assume(I):
        arg, sched = sched_variant(tomo, sel, variant)
        v = vec_of(I, "x", nv)
        ref = born_reference(tomo, sysname, m, flag, v, sched, sel)
        return [SBool.of(p >= PMIN) for ps in ref for p in ps]

    def run(I):
        arg, sched = sched_variant(tomo, sel, variant)
        qt, tmpl = tomo_lib.build(tomo, sysname, m=m, flag=flag, schedules=arg, sel=sel)
        v = vec_of(I, "x", nv)
        obj = tmpl.generate_from_var(v)
        seq = qt.generate_prob_dists_sequence(obj)
        ref = born_reference(tomo, sysname, m, flag, v, sched, sel)
        out = [Holds("one distribution per schedule", len(seq) == len(sched))]
        for k, (ps, rp) in enumerate(zip(seq, ref)):
            out.append(Eq(f"schedule {k}: circuit distribution == Born reference", np.array(list(flat(ps)), dtype=object), np.array(rp, dtype=object), 1e-8))
        A = qt.calc_matA()
        model = refs.mm(A, np.asarray(v, dtype=object).reshape(-1, 1)).reshape(-1) + qt.calc_vecB()
        out.append(Eq("model == circuit", model, np.array([x for ps in seq for x in flat(ps)], dtype=object), 1e-8))
        return out
    return FnOb(reals("x", nv, -1.0, 1.0), run, assume=assume, eager_ite=True, max_paths=100, expect_nonlinear=True, explore_budget=300)


def ob_circuit_qmpt(tester):
    """QMPT circuit run for the one-parameter family of measurement processes t*M_a + (1-t)*M_b (two library processes
    with two outcomes): generate_prob_dists_sequence == A x + b == Born/Kraus reference"""
    sysname, tomo, m, flag = "Q1", "qmpt", 2, True
    # testers without exact zero probabilities for projective processes (x0, y0 and a mixed state; y POVM and the trine)
    sel = dict(states=[2, 3, 4], povms=[1, 3]) if tester == "mixed" else dict(states=[2, 4], povms=[1])
    d = 2

    def unknown_var(I):
        lib = objlib.mprocesses("Q1")
        a, b = lib["z_then_U"], lib["zproj"]
        t = I["t"]
        st = a.to_stacked_vector() * t + b.to_stacked_vector() * (1 - t)
        # variables = stacked vector without the implied first row of the last HS
        pos = (m - 1) * 16
        xs = list(flat(st))
        return xs[:pos] + xs[pos + 4:]

    def assume(I):
        arg, sched = sched_variant(tomo, sel, "all")
        v = unknown_var(I)
        ref = born_reference(tomo, sysname, m, flag, v, sched, sel)
        return [SBool.of(p >= PMIN) for ps in ref for p in ps]

    def run(I):
        arg, sched = sched_variant(tomo, sel, "all")
        qt, tmpl = tomo_lib.build(tomo, sysname, m=m, flag=flag, schedules=arg, sel=sel)
        v = unknown_var(I)
        v = SymNd(v) if any(isinstance(x, Sym) for x in v) else np.array(v, dtype=np.float64)
        obj = tmpl.generate_from_var(v)
        seq = qt.generate_prob_dists_sequence(obj)
        ref = born_reference(tomo, sysname, m, flag, v, sched, sel)
        out = [Holds("one distribution per schedule", len(seq) == len(sched))]
        for k, (ps, rp) in enumerate(zip(seq, ref)):
            out.append(Eq(f"schedule {k}: circuit distribution == reference (process outcome slow, POVM outcome fast)",
                          np.array(list(flat(ps)), dtype=object), np.array(rp, dtype=object), 1e-8))
        A = qt.calc_matA()
        model = refs.mm(A, np.asarray(v, dtype=object).reshape(-1, 1)).reshape(-1) + qt.calc_vecB()
        out.append(Eq("model == circuit", model, np.array([x for ps in seq for x in flat(ps)], dtype=object), 1e-8))
        return out
    return FnOb([("t", "real", 0.05, 0.95)], run, assume=assume, eager_ite=True, exact_branching=True, branch_timeout_ms=5000,
                max_paths=60, expect_nonlinear=True, explore_budget=400, exact_timeout_ms=30000)


def ob_rank(tomo, sysname, m, flag, complete):
    """is_fullrank_matA() is True exactly when no non-zero direction is annihilated by A (decided by the solver over all
    directions v with |v|_inf == 1)"""
    d = DIMS[sysname]
    nv = c03.n_var(TOMO_TYPE[tomo], d, m, flag)
    sel = dict(tomo_lib.DEFAULT[(tomo, sysname)])
    if not complete:
        # drop testers: informationally incomplete
        for k in ("povms", "states"):
            if k in sel:
                sel[k] = sel[k][:1] if (k == "povms" or tomo == "povmt") else sel[k]

    def run(I):
        qt, _ = tomo_lib.build(tomo, sysname, m=m, flag=flag, sel=sel)
        full = bool(qt.is_fullrank_matA())
        A = qt.calc_matA()
        v = vec_of(I, "v", nv)
        Av = refs.mm(A, np.asarray(v, dtype=object).reshape(-1, 1)).reshape(-1)
        unit = s_or([SBool.of(x == 1) | SBool.of(x == -1) for x in flat(v)])
        small = s_and([SBool.of(Sym.of(y) <= 1e-7) & SBool.of(Sym.of(y) >= -1e-7) for y in Av])
        out = [Holds("tester set classified as expected", full == complete)]
        if full:
            out.append(Holds("full rank => no unit direction with A v == 0", ~(unit & small)))
        return out
    return FnOb(reals("v", nv, -1.0, 1.0), run)


def obligations(tier):
    out = []
    for tomo in TOMO_TYPE:
        for s in tiers(tier, ["Q1"], ["Q1", "T1"]):
            for m in ([0] if tomo in ("qst", "qpt") else tiers(tier, [2, 3], [2, 3, 4])):
                if tomo == "qmpt" and (s == "T1" or m > 3):
                    continue
                for flag in (True, False):
                    variants = ["all", "perm"] if tier == "quick" else ["all", "perm", "rep", "subset"]
                    for var in variants:
                        out += specs("C08.model", [{"tomo": tomo, "sysname": s, "m": m, "flag": flag, "tester": "default", "variant": var}], ob_model, 3)
                    if s == "Q1":
                        out += specs("C08.model", [{"tomo": tomo, "sysname": s, "m": m, "flag": flag, "tester": "mixed", "variant": "all"}], ob_model, 3)
    for flag in (True, False):
        out += specs("C08.model", [{"tomo": "qst", "sysname": "Q1", "m": 0, "flag": flag, "tester": "uneven", "variant": "all"}], ob_model, 3)
        out += specs("C08.model", [{"tomo": "qpt", "sysname": "Q1", "m": 0, "flag": flag, "tester": "uneven", "variant": "all"}], ob_model, 3)
        # composite system (2 qubits): dimension of the whole system vs of its parts
        out += specs("C08.model", [{"tomo": "povmt", "sysname": "Q2", "m": 2, "flag": flag, "tester": "small", "variant": "all"}], ob_model, 4)
        out += specs("C08.model", [{"tomo": "qst", "sysname": "Q2", "m": 0, "flag": flag, "tester": "small", "variant": "all"}], ob_model, 4)
        out += specs("C08.model", [{"tomo": "qmpt", "sysname": "T1", "m": 2, "flag": flag, "tester": "small", "variant": "all"}], ob_model, 8)
        if tier == "thorough":
            out += specs("C08.model", [{"tomo": "qmpt", "sysname": "Q2", "m": 2, "flag": flag, "tester": "small", "variant": "all"}], ob_model, 20)
            out += specs("C08.model", [{"tomo": "qpt", "sysname": "Q2", "m": 0, "flag": flag, "tester": "small", "variant": "all"}], ob_model, 10)
    out += specs("C08.circuit.qmpt", tiers(tier, [], [{"tester": "default"}]), ob_circuit_qmpt, 12)
    for tomo in ("qst", "povmt", "qpt"):
        for m in ([0] if tomo in ("qst", "qpt") else [2, 3]):      # m = 3: the implied last POVM element is rebuilt from TWO explicit ones
            out += specs("C08.circuit", [{"tomo": tomo, "sysname": "Q1", "m": m, "tester": "default", "variant": "all"}], ob_circuit, 10)
            out += specs("C08.circuit", [{"tomo": tomo, "sysname": "Q1", "m": m, "tester": "mixed", "variant": "all"}], ob_circuit, 10)
    for tomo in TOMO_TYPE:
        for flag in (True, False):
            m = 0 if tomo in ("qst", "qpt") else 2
            out += specs("C08.rank", [{"tomo": tomo, "sysname": "Q1", "m": m, "flag": flag, "complete": True}], ob_rank, 2)
    return out


if __name__ == "__main__":
    sys.exit(main("C08", "c08"))
