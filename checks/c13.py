#!/usr/bin/env python
"""C13 -- results depend only on arguments: no hidden state, no operand mutation (bounded model checking over histories of
operations on a shared pool of objects with symbolic parameters)."""
from common import *
from symq import stubs
import itertools
import c03, c12, tomo_lib

BOX = 5.0
SIZES = {"s": 4, "p": 8, "g": 16, "m": 32}


def tiers(tier, quick, thorough):
    return quick if tier == "quick" else thorough


def fresh_pool(I, name_base=0):
    """new composite system (empty caches) and new objects built from the same symbolic parameters"""
    from quara.objects.composite_system import CompositeSystem
    from quara.objects.elemental_system import ElementalSystem
    from quara.objects import matrix_basis as mb
    c = CompositeSystem([ElementalSystem(name_base, mb.get_normalized_pauli_basis())])
    s = mk_state(c, vec_of(I, "s", 4).copy())
    p = mk_povm(c, [vec_of(I, "p", 8)[:4].copy(), vec_of(I, "p", 8)[4:].copy()])
    g = mk_gate(c, vec_of(I, "g", 16).reshape(4, 4).copy())
    m = mk_mprocess(c, [vec_of(I, "m", 32)[:16].reshape(4, 4).copy(), vec_of(I, "m", 32)[16:].reshape(4, 4).copy()])
    # partners on a second subsystem (concrete library objects) for tensor products
    c2 = CompositeSystem([ElementalSystem(name_base + 1, mb.get_normalized_pauli_basis())])
    lib_s = tomo_lib.dm_to_vec(tomo_lib.state_mats("Q1")[4], "Q1")
    lib_p = [tomo_lib.dm_to_vec(E, "Q1") for E in tomo_lib.povm_mats("Q1")[3]]
    s2 = mk_state(c2, lib_s.copy())
    p2 = mk_povm(c2, [v.copy() for v in lib_p])
    return {"c": c, "s": s, "p": p, "g": g, "m": m, "s2": s2, "p2": p2}


def meta(obj):
    out = [obj.on_para_eq_constraint, obj.is_physicality_required, obj.mode_proj_order, obj.on_algo_eq_constraint, obj.on_algo_ineq_constraint,
           obj.is_estimation_object, obj.eps_proj_physical, obj.eps_truncate_imaginary_part]
    if hasattr(obj, "nums_local_outcomes"):
        out.append(list(obj.nums_local_outcomes))
    if hasattr(obj, "shape"):
        out.append(tuple(obj.shape))
    return out


def snapshot(pool):
    return {k: ([x for x in flat(pool[k].to_stacked_vector())], meta(pool[k])) for k in ("s", "p", "g", "m", "s2", "p2")}


# ---- the alphabet: name -> function(pool) returning a list of arrays (the observable result) ----------------------
def _proj_ineq(obj):
    stubs.uf_mode(True)
    return obj.calc_proj_ineq_constraint().to_stacked_vector()


def op_list():
    from quara.objects.operators import compose_qoperations as comp
    from quara.objects import gate as G, state as S, povm as P, mprocess as MP
    from quara.settings import Settings
    ops = {}
    ops["state.dm"] = lambda q: [q["s"].to_density_matrix(), q["s"].to_density_matrix_with_sparsity()]
    ops["povm.mats"] = lambda q: list(q["p"].matrices_with_sparsity()) + [q["p"].matrix(1)]
    ops["gate.choi"] = lambda q: [q["g"].to_choi_matrix(), q["g"].to_choi_matrix_with_dict(), q["g"].to_choi_matrix_with_sparsity()]
    ops["gate.hs_from_choi"] = lambda q: [G.to_hs_from_choi_with_sparsity(q["c"], q["g"].to_choi_matrix_with_sparsity()),
                                           G.to_hs_from_choi_with_dict(q["c"], q["g"].to_choi_matrix_with_sparsity())]
    ops["mproc.choi"] = lambda q: [q["m"].to_choi_matrix_with_sparsity(1), q["m"].to_choi_matrix_with_dict(0)]
    ops["to_var"] = lambda q: [q[k].to_var() for k in ("s", "p", "g", "m")]
    ops["verdicts"] = lambda q: [np.array([Sym.of(ite(SBool.of(q["g"].is_tp(1e-6)), 1.0, 0.0)), Sym.of(ite(SBool.of(q["s"].is_trace_one(1e-6)), 1.0, 0.0)),
                                           Sym.of(ite(SBool.of(q["p"].is_identity_sum(1e-6)), 1.0, 0.0))], dtype=object)]
    ops["proj.eq"] = lambda q: [q[k].calc_proj_eq_constraint().to_stacked_vector() for k in ("s", "p", "g", "m")]
    ops["proj.eq.var"] = lambda q: [type(q[k]).calc_proj_eq_constraint_with_var(q["c"], q[k].to_stacked_vector(), on_para_eq_constraint=False) for k in ("s", "p", "g", "m")]
    ops["proj.ineq"] = lambda q: [_proj_ineq(q["s"]), _proj_ineq(q["g"])]
    ops["copy"] = lambda q: [q[k].copy().to_stacked_vector() for k in ("s", "p", "g", "m")]
    ops["compose"] = lambda q: [comp(q["g"], q["s"]).vec, comp(q["g"], q["g"]).hs, comp(q["p"], q["g"]).vecs[1], comp(q["m"], q["g"]).hss[0], comp(q["g"], q["m"]).hss[1]]
    from quara.objects.operators import tensor_product as tens
    ops["tensor"] = lambda q: [tens(q["s"], q["s2"]).vec, tens(q["p"], q["p2"]).vecs[4], tens(q["p2"], q["p"]).vecs[1], tens(q["s2"], q["s"]).vec]
    ops["arith"] = lambda q: [(q["g"] + q["g"]).hs, (q["s"] - q["s"]).vec, (q["p"] * 2.0).vecs[0], (q["m"] / 2.0).hss[1]]
    ops["origin"] = lambda q: [q[k].generate_origin_obj().to_stacked_vector() for k in ("s", "p", "g", "m")] + [q["g"].generate_zero_obj().hs]
    ops["gradient"] = lambda q: [q["g"].calc_gradient(3).hs, q["p"].calc_gradient(5).vecs[1]]
    ops["convert"] = lambda q: [q["g"].convert_to_comp_basis(), q["s"].convert_basis(q["c"].comp_basis())]
    def closures(q):
        # building the projection closures (as the optimisers do) with explicit, non-default arguments configures nothing on the object
        for k in ("s", "p", "g", "m"):
            o = q[k]
            o.func_calc_proj_physical_with_var(on_para_eq_constraint=False, mode_proj_order="ineq_eq", max_iteration=3)
            o.func_calc_proj_physical(on_para_eq_constraint=False, mode_proj_order="ineq_eq", max_iteration=3)
            o.func_calc_proj_eq_constraint(False)
            o.func_calc_proj_eq_constraint_with_var(False)
            o.func_calc_proj_ineq_constraint(False)
            o.func_calc_proj_ineq_constraint_with_var(False)
        return []
    ops["closures"] = closures
    for nm in ("dict_from_hs_to_choi", "dict_from_choi_to_hs", "basis_T_sparse", "basisconjugate_sparse", "basisconjugate_basis_sparse",
               "basis_basisconjugate_T_sparse", "basis_basisconjugate_T_sparse_from_1", "basishermitian_basis_T_from_1"):
        ops["del." + nm] = (lambda nm: (lambda q: (getattr(q["c"], "delete_" + nm)(), [])[1]))(nm)

    def set_atol(q):
        old = Settings.get_atol()
        Settings.set_atol(1e-3)
        try:
            r = [np.array([Sym.of(ite(SBool.of(q["g"].is_tp()), 1.0, 0.0))], dtype=object)]
        finally:
            Settings.set_atol(old)
        return r
    ops["atol.change_restore"] = set_atol
    return ops


PROBES = ["tensor", "state.dm", "povm.mats", "gate.choi", "gate.hs_from_choi", "mproc.choi", "to_var", "verdicts", "proj.eq", "proj.eq.var", "proj.ineq",
          "compose", "origin", "convert"]


def ob_history(first, rest_group, length):
    """histories first -> (each op of rest_group)[-> each op again for length 3]: after every step all pool objects are unchanged, and
    afterwards every probe returns what it returns on a fresh pool (fresh composite system, fresh objects, same parameter values)"""
    def run(I):
        ops = op_list()
        names = list(ops)
        seconds = rest_group
        out = []
        fresh = fresh_pool(I, 100)
        stubs.uf_mode(True)
        fresh_results = {pn: ops[pn](fresh) for pn in PROBES}
        hists = [[first, b] for b in seconds] if length == 2 else [[first, b, c_] for b in seconds for c_ in seconds]
        if length == 1:
            hists = [[first]]
        for h in hists:
            pool = fresh_pool(I, 0)
            before = snapshot(pool)
            for step, nm in enumerate(h):
                ops[nm](pool)
                after = snapshot(pool)
                for k in before:
                    out.append(Eq(f"history {'>'.join(h)}: operand {k} unchanged after step {step} ({nm})", np.array(after[k][0], dtype=object), np.array(before[k][0], dtype=object), 0.0))
                    out.append(Holds(f"history {'>'.join(h)}: public attributes of {k} unchanged after step {step} ({nm})", after[k][1] == before[k][1]))
            for pn in PROBES:
                got = ops[pn](pool)
                for idx, (a, b) in enumerate(zip(got, fresh_results[pn])):
                    out.append(Eq(f"history {'>'.join(h)}: probe {pn}[{idx}] == fresh pool", a, b, 1e-9))
        return out
    inp = reals("s", 4, -BOX, BOX) + reals("p", 8, -BOX, BOX) + reals("g", 16, -BOX, BOX) + reals("m", 32, -BOX, BOX)
    return FnOb(inp, run, max_paths=8, expect_nonlinear=True, explore_budget=900,
                stubs=["np.linalg.eigh: uninterpreted (same matrix -> same decomposition) for the inequality projections"],
                outside=["histories longer than the stated length", "operations outside the alphabet listed in checks/c13.py"])


def ob_copy_alias(typ):
    """a copy is independent of its original: overwrite the original's parameters in place, the copy keeps the old values; and
    constructors' argument arrays are the only adoption (Povm stores read-only deep copies)"""
    ns = {"state": 4, "povm": 8, "gate": 16, "mprocess": 32}[typ]

    def run(I):
        c = qenv.csys("Q1")
        x = vec_of(I, "x", ns)
        obj = c03.make_obj(typ, c, x.copy(), 2, False)
        cp = obj.copy()
        snap = [t for t in flat(cp.to_stacked_vector())]
        # poke the original's storage
        if typ == "state":
            obj._vec[0] = obj._vec[0] + 1.0
        elif typ == "gate":
            obj._hs[0, 0] = obj._hs[0, 0] + 1.0
        elif typ == "mprocess":
            obj._hss[0][0, 0] = obj._hss[0][0, 0] + 1.0
        else:
            try:
                obj._vecs[0][0] = 1.0
                wrote = True
            except ValueError:
                wrote = False
            return [Holds("Povm stores read-only arrays", not wrote),
                    Eq("copy unaffected", np.array([t for t in flat(cp.to_stacked_vector())], dtype=object), np.array(snap, dtype=object), 0.0)]
        return [Eq("copy unaffected by writing into the original", np.array([t for t in flat(cp.to_stacked_vector())], dtype=object), np.array(snap, dtype=object), 0.0)]
    return FnOb(reals("x", ns, -BOX, BOX), run)


ACCESSORS = {
    "state": ["to_density_matrix", "to_density_matrix_with_sparsity", "to_var", "to_stacked_vector"],
    "povm": ["matrices", "matrices_with_sparsity", "to_var", "to_stacked_vector"],
    "gate": ["to_choi_matrix", "to_choi_matrix_with_dict", "to_choi_matrix_with_sparsity", "to_var", "to_stacked_vector", "to_process_matrix"],
    "mprocess": ["to_var", "to_stacked_vector", "to_povm"],
}


def _val(r):
    """flat list of the entries of an accessor's result (array, list of arrays, or an object with a stacked vector)"""
    if hasattr(r, "to_stacked_vector"):
        r = r.to_stacked_vector()
    if isinstance(r, (list, tuple)):
        out = []
        for x in r:
            out += _val(x)
        return out
    return [t for t in flat(np.asarray(r, dtype=object) if nd.has_sym(r) else np.asarray(r))]


def _scribble(r):
    """overwrite every writable array inside an accessor's result in place"""
    if isinstance(r, (list, tuple)):
        for x in r:
            _scribble(x)
        return
    if isinstance(r, np.ndarray):
        try:
            r[...] = 7.0
        except ValueError:
            pass


def ob_accessor_fresh(typ):
    """(1) writing into an array an accessor handed out does not change what the accessor returns next (no memo shared with the caller);
    (2) after the object's own parameter array is overwritten in place with new values y, every accessor returns what it returns on a
    fresh object built from y (results depend on the current values only)"""
    ns = {"state": 4, "povm": 8, "gate": 16, "mprocess": 32}[typ]

    def run(I):
        c = qenv.csys("Q1")
        x = vec_of(I, "x", ns)
        y = vec_of(I, "y", ns)
        out = []
        obj = c03.make_obj(typ, c, x.copy(), 2, False)
        fresh_x = c03.make_obj(typ, c, x.copy(), 2, False)
        for a in ACCESSORS[typ]:
            if a in ("to_var", "to_stacked_vector"):
                continue        # these may hand out the object's own storage (State.to_stacked_vector returns the internal array): a user write
                                # into it is a write into the object, not hidden state -- only computed representations are probed here
            r1 = getattr(obj, a)()
            _scribble(r1)
            out.append(Eq(f"{a}(): second call after the first result was overwritten == fresh object", np.array(_val(getattr(obj, a)()), dtype=object),
                          np.array(_val(getattr(fresh_x, a)()), dtype=object), 1e-12))
        out.append(Eq("the object itself is unchanged by writes into handed-out arrays", np.array(_val(obj.to_stacked_vector()), dtype=object), np.array(list(flat(x)), dtype=object), 0.0))
        # (2) in-place update of the parameters (where the class allows it: Povm keeps read-only arrays)
        obj2 = c03.make_obj(typ, c, x.copy(), 2, False)
        for a in ACCESSORS[typ]:
            getattr(obj2, a)()             # fill whatever the object may memoise
        n = 4
        wrote = True
        try:
            if typ == "state":
                obj2._vec[...] = y
            elif typ == "gate":
                obj2._hs[...] = y.reshape(n, n)
            elif typ == "mprocess":
                for k in range(2):
                    obj2._hss[k][...] = y[k * 16:(k + 1) * 16].reshape(n, n)
            else:
                for k in range(2):
                    obj2._vecs[k][...] = y[k * n:(k + 1) * n]
        except ValueError:
            wrote = False
        if wrote:
            fresh_y = c03.make_obj(typ, c, y.copy(), 2, False)
            for a in ACCESSORS[typ]:
                out.append(Eq(f"{a}() after an in-place parameter update == fresh object with the new values", np.array(_val(getattr(obj2, a)()), dtype=object),
                              np.array(_val(getattr(fresh_y, a)()), dtype=object), 1e-12))
        else:
            out.append(Holds("parameters are read-only (Povm)", typ == "povm"))
        return out
    return FnOb(reals("x", ns, -BOX, BOX) + reals("y", ns, -BOX, BOX), run, max_paths=50)


def ob_basis_readonly():
    def run(I):
        from quara.objects import matrix_basis as mb
        b = mb.get_normalized_pauli_basis()
        out = []
        for k in range(4):
            arr = b[k]
            try:
                if hasattr(arr, "toarray"):
                    out.append(Holds("sparse basis element", True))
                    continue
                arr[0, 0] = 5.0
                out.append(Holds(f"basis element {k} is read-only", False))
            except (ValueError, TypeError):
                out.append(Holds(f"basis element {k} is read-only", True))
        try:
            b._basis[0] = None
            out.append(Holds("basis tuple immutable", False))
        except TypeError:
            out.append(Holds("basis tuple immutable", True))
        return out
    return FnOb([], run, tv_points=0)


def ob_loss_reuse(kind, tomo, m, seq):
    """a loss object configured for (dataset, mode) after having been configured for other datasets / modes returns the same value and
    gradient as a fresh loss object configured once -- for every variable vector x"""
    sysname = "Q1"
    d = 2
    # a sequence item is (dataset, mode) or (dataset, mode, on_para_eq_constraint of the tomography it is configured for)
    seq = [tuple(t) + (False,) if len(t) == 2 else tuple(t) for t in seq]
    flag = seq[-1][2]
    nv = c03.n_var(c12.TOMO_TYPE[tomo], d, m, flag)
    qt0, _, sel0, sched0 = c12.build_qt(tomo, sysname, m, flag)
    sizes = c12.sizes_of(tomo, sysname, m, sel0, sched0)
    rng = np.random.RandomState(3)
    D = {"D1": [(30, rng.dirichlet(np.ones(s_) * 2.0)) for s_ in sizes], "D2": [(70, rng.dirichlet(np.ones(s_) * 2.0)) for s_ in sizes]}
    Ws = []
    for s_ in sizes:
        M = rng.normal(size=(s_, s_))
        Ws.append(np.ascontiguousarray((M + M.T) / 2 + np.eye(s_)))

    def option(mode):
        if kind.startswith("se"):
            return c12.se_option("custom", [W.copy() for W in Ws]) if mode == "custom" else c12.se_option(mode)
        return c12.re_option("custom", [0.5 + 0.5 * k for k in range(len(sizes))]) if mode == "custom" else c12.re_option(mode)

    def assume(I):
        if kind.startswith("se"):
            return []
        qt, tmpl, sel, sched = c12.build_qt(tomo, sysname, m, flag)
        x = vec_of(I, "x", nv)
        A, b = qt.calc_matA(), qt.calc_vecB()
        pvec = refs.mm(A, np.asarray(x, dtype=object).reshape(-1, 1)).reshape(-1) + b
        return [SBool.of(Sym.of(t) >= 1e-3) for t in pvec]

    def run(I):
        qts = {fl: c12.build_qt(tomo, sysname, m, fl)[0] for fl in (True, False)}
        qt = qts[flag]
        x = vec_of(I, "x", nv)
        loss = None
        cls_kind = kind
        from quara.loss_function import (weighted_probability_based_squared_error as a1, weighted_relative_entropy as a2)
        import quara.loss_function.standard_qtomography_based_weighted_probability_based_squared_error as a3
        import quara.loss_function.standard_qtomography_based_weighted_relative_entropy as a4
        cls = {"se": a1.WeightedProbabilityBasedSquaredError, "re": a2.WeightedRelativeEntropy,
               "se_fast": a3.StandardQTomographyBasedWeightedProbabilityBasedSquaredError,
               "re_fast": a4.StandardQTomographyBasedWeightedRelativeEntropy}[kind]
        loss = cls()
        for step, (dn, mode, fl) in enumerate(seq):
            loss.set_from_standard_qtomography_option_data(qts[fl], option(mode), [(n, q.copy()) for n, q in D[dn]], True, False)
            if step < len(seq) - 1:
                # the object is USED between two configurations (as an estimator does): anything it memoises on first use must not survive
                x_mid = np.array([0.7, 0.1, -0.2, 0.15][(1 if fl else 0):], dtype=np.float64)
                loss.value(x_mid)
                loss.gradient(x_mid)
        dn, mode, _ = seq[-1]
        fresh = cls()
        fresh.set_from_standard_qtomography_option_data(qt, option(mode), [(n, q.copy()) for n, q in D[dn]], True, False)
        for qa in core.div_atoms():
            core.lemma(SBool.of(qa <= 1e9) & SBool.of(qa >= -1e9))
        v1, v2 = loss.value(x), fresh.value(x)
        g1, g2 = loss.gradient(x), fresh.gradient(x)
        return [Eq(f"re-used loss after {seq} value == fresh loss", v1, v2, 1e-7),
                Holds("gradient has one entry per variable of the current tomography", np.shape(g1) == (nv,) and np.shape(g2) == (nv,)),
                Eq("gradient == fresh loss", g1, g2, 1e-6)]
    return FnOb(reals("x", nv, -1.0, 1.0), run, assume=assume, eager_ite=True, max_paths=40, expect_nonlinear=True)


def ob_data_operands(op):
    """operations that take empirical distributions (symbolic, incl. entries below the 1e-8 replacement threshold) leave the arrays they
    were handed unchanged: the very same array objects are inspected entry by entry afterwards"""
    sizes = [2, 2, 2]

    def mk(I):
        data = []
        for j in range(3):
            q0 = I[f"q{j}"]
            arr = SymNd([q0, 1.0 - q0]) if isinstance(q0, Sym) else np.array([q0, 1.0 - q0], dtype=np.float64)
            data.append((20 + 10 * j, arr))
        return data

    def run(I):
        from quara.utils import matrix_util as MU
        qt, tmpl, sel, sched = c12.build_qt("qst", "Q1", 0, False)
        data = mk(I)
        snap = [(n, [v for v in flat(q)]) for n, q in data]
        if op == "replace_prob_dist":
            for n, q in data:
                MU.replace_prob_dist(q)
        elif op == "covariance":
            for n, q in data:
                MU.calc_covariance_mat(q, n)
        elif op == "fisher":
            A = qt.calc_matA()
            for j, (n, q) in enumerate(data):
                MU.calc_fisher_matrix(q, [A[2 * j], A[2 * j + 1]])
        elif op == "linear_estimate":
            from quara.protocol.qtomography.standard.linear_estimator import LinearEstimator
            LinearEstimator().calc_estimate(qt, data)
        else:
            kind, mode = op.split(":")
            opt = c12.se_option(mode) if kind.startswith("se") else c12.re_option(mode)
            loss = c12.make_loss(kind, qt, opt, data)
            x = np.array([0.7, 0.1, 0.2, -0.1])
            loss.value(x)
            loss.gradient(x)
        out = []
        for j, ((n0, vals0), (n1, q1)) in enumerate(zip(snap, data)):
            out.append(Holds(f"dataset {j}: sample size unchanged", n0 == n1))
            out.append(Eq(f"dataset {j}: the array handed in is unchanged", q1, np.array(vals0, dtype=object), 0.0))
        return out
    return FnOb([(f"q{j}", "real", 0.0, 1.0) for j in range(3)], run, max_paths=200, expect_nonlinear=True, eager_ite=False)


def obligations(tier):
    out = []
    ops = None
    names = ["tensor", "state.dm", "povm.mats", "gate.choi", "gate.hs_from_choi", "mproc.choi", "to_var", "verdicts", "proj.eq", "proj.eq.var", "proj.ineq", "copy",
             "compose", "arith", "origin", "gradient", "convert", "atol.change_restore", "closures"]
    dels = ["del.dict_from_hs_to_choi", "del.dict_from_choi_to_hs", "del.basis_T_sparse", "del.basisconjugate_sparse", "del.basisconjugate_basis_sparse",
            "del.basis_basisconjugate_T_sparse", "del.basis_basisconjugate_T_sparse_from_1", "del.basishermitian_basis_T_from_1"]
    allops = names + dels
    # length 2: every ordered pair (first, second); grouped by the first operation
    for first in allops:
        out += specs("C13.history", [{"first": first, "rest_group": allops, "length": 2}], ob_history, 10)
    if tier == "thorough":
        # length 3 over the cache operations and the operations that build / use caches
        core_ops = ["gate.choi", "gate.hs_from_choi", "proj.ineq", "proj.eq.var", "compose"] + dels
        for first in core_ops:
            out += specs("C13.history", [{"first": first, "rest_group": core_ops, "length": 3}], ob_history, 30)
    out += specs("C13.copy_alias", [{"typ": t} for t in ("state", "povm", "gate", "mprocess")], ob_copy_alias, 1)
    out += specs("C13.basis_readonly", [{}], ob_basis_readonly, 0.5)
    out += specs("C13.accessor_fresh", [{"typ": t} for t in ("state", "povm", "gate", "mprocess")], ob_accessor_fresh, 2)
    out += specs("C13.data_operands", [{"op": o} for o in ("replace_prob_dist", "covariance", "fisher", "linear_estimate", "se:identity", "se:inverse_sample_covariance",
                                                           "se:inverse_unbiased_covariance", "se_fast:inverse_sample_covariance", "re:identity", "re_fast:identity")], ob_data_operands, 3)
    seqs = [[("D1", "identity"), ("D2", "identity")], [("D1", "custom"), ("D2", "identity")], [("D1", "identity"), ("D1", "custom")], [("D2", "custom"), ("D1", "custom")]]
    seqs_se = seqs + [[("D1", "inverse_sample_covariance"), ("D2", "inverse_sample_covariance")], [("D1", "inverse_sample_covariance"), ("D1", "identity")]]
    # the same loss object configured for tomographies with different numbers of variables (parametrisation flag changes)
    flagseqs = [[("D1", "identity", True), ("D1", "identity", False)], [("D1", "identity", False), ("D2", "identity", True)]]
    for kind in ("se", "se_fast", "re", "re_fast"):
        for sq in flagseqs:
            out += specs("C13.loss_reuse", [{"kind": kind, "tomo": "qst", "m": 0, "seq": [list(t) for t in sq]}], ob_loss_reuse, 3)
    for kind in ("se", "se_fast"):
        for sq in seqs_se:
            out += specs("C13.loss_reuse", [{"kind": kind, "tomo": "qst", "m": 0, "seq": [list(t) for t in sq]}], ob_loss_reuse, 2)
    for kind in ("re", "re_fast"):
        for sq in seqs:
            out += specs("C13.loss_reuse", [{"kind": kind, "tomo": "qst", "m": 0, "seq": [list(t) for t in sq]}], ob_loss_reuse, 3)
    return out


if __name__ == "__main__":
    sys.exit(main("C13", "c13", level="model_checking"))
