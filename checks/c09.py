#!/usr/bin/env python
"""C09 -- linear estimation inverts the forward model exactly."""
from common import *
import c03, c08, tomo_lib

TOMO_TYPE = c08.TOMO_TYPE


def tiers(tier, quick, thorough):
    return quick if tier == "quick" else thorough


def uniform_sel(tomo, sysname, over):
    """tester selections with equal outcome counts (the estimator stacks the empirical distributions with np.vstack);
    over=True adds redundant testers (over-complete)"""
    if sysname == "Q1" and over == "uneven":
        povms = [7, 8, 9]            # 3-outcome POVMs with elements of unequal trace (outcome count != dimension)
        states = [4, 1, 2, 3]
    elif sysname == "Q1" and over == "unbal2":
        povms = [0, 6, 1]            # one 2-outcome POVM with elements of unequal trace
        states = [4, 1, 2, 3]
    elif sysname == "Q1":
        povms = [0, 1, 2] + ([5] if over else [])
        states = [0, 1, 2, 3] + ([4] if over else [])
    else:
        povms = list(range(9))
        states = list(range(9))
    return {"qst": dict(povms=povms), "povmt": dict(states=states), "qpt": dict(states=states, povms=povms),
            "qmpt": dict(states=states, povms=povms)}[tomo]


def split(flat_list, sizes):
    out, pos = [], 0
    for s_ in sizes:
        out.append(flat_list[pos:pos + s_])
        pos += s_
    return out


def as_dist(xs, n):
    xs = list(xs)
    if any(isinstance(x, Sym) for x in xs):
        return (n, SymNd(xs))
    return (n, np.array(xs, dtype=np.float64))


def ob_recover(tomo, sysname, m, flag, over):
    """exact distributions of a symbolic true object in -> that object out (estimated_var == x, estimated_qoperation == object),
    independent of the sample counts attached; consistency_check helper agrees"""
    d = DIMS[sysname]
    nv = c03.n_var(TOMO_TYPE[tomo], d, m, flag)
    sel = uniform_sel(tomo, sysname, over)

    def run(I):
        from quara.protocol.qtomography.standard.linear_estimator import LinearEstimator
        qt, tmpl = tomo_lib.build(tomo, sysname, m=m, flag=flag, sel=sel)
        x = vec_of(I, "x", nv)
        sched = c08.default_schedules(tomo, sel)
        ref = c08.born_reference(tomo, sysname, m, flag, x, sched, sel)
        n1, n2 = I["n1"], I["n2"]
        est = LinearEstimator()
        # the same estimator instance is first used on a sibling tomography (same class and sizes, testers rotated): an estimator
        # carries no state from one tomography to the next
        sel_sib = {k: list(v[1:]) + [v[0]] for k, v in sel.items()}
        qt_sib, _ = tomo_lib.build(tomo, sysname, m=m, flag=flag, sel=sel_sib)
        ref_sib = c08.born_reference(tomo, sysname, m, flag, x, c08.default_schedules(tomo, sel_sib), sel_sib)
        r0 = est.calc_estimate(qt_sib, [as_dist(ps, n1) for ps in ref_sib])
        r1 = est.calc_estimate(qt, [as_dist(ps, n1) for ps in ref])
        r2 = est.calc_estimate(qt, [as_dist(ps, n2) for ps in ref])
        out = [Eq("sibling tomography (testers rotated), same estimator instance: estimated_var == true variables", r0.estimated_var, x, 1e-7),
               Eq("estimated_var == true variables", r1.estimated_var, x, 1e-7),
               Eq("estimate independent of the sample counts", r2.estimated_var, r1.estimated_var, 0.0)]
        obj = r1.estimated_qoperation
        truth = np.array(c03.ref_stacked_from_var(TOMO_TYPE[tomo], d, m, flag, x), dtype=object)
        out.append(Eq("estimated_qoperation == true object", obj.to_stacked_vector(), truth, 1e-7))
        out.append(Holds("estimated object type/flag", type(obj) is type(tmpl) and obj.on_para_eq_constraint == flag))
        return out
    return FnOb(reals("x", nv, -10.0, 10.0) + [("n1", "int", 1, 100000), ("n2", "int", 1, 100000)], run, max_paths=20)


def ob_normal_eq(tomo, sysname, m, flag, over):
    """arbitrary (also non-normalised) data f: the estimate v satisfies the normal equations A^T (A v + b - f) == 0
    (least squares: the prediction residual is orthogonal to the model); estimating a sequence == estimating each alone"""
    d = DIMS[sysname]
    sel = uniform_sel(tomo, sysname, over)
    sched = c08.default_schedules(tomo, sel)
    pm = tomo_lib.povm_mats(sysname)
    if tomo == "qst":
        sizes = [len(pm[sel["povms"][s[1][1]]]) for s in sched]
    elif tomo == "povmt":
        sizes = [m for s in sched]
    elif tomo == "qpt":
        sizes = [len(pm[sel["povms"][s[2][1]]]) for s in sched]
    else:
        sizes = [m * len(pm[sel["povms"][s[2][1]]]) for s in sched]
    nf = sum(sizes)

    def run(I):
        from quara.protocol.qtomography.standard.linear_estimator import LinearEstimator
        qt, tmpl = tomo_lib.build(tomo, sysname, m=m, flag=flag, sel=sel)
        f = [I[f"f{i}"] for i in range(nf)]
        g = [I[f"f{i}"] * 0.5 + 0.25 for i in range(nf)]       # a second, different dataset (affine image of the first)
        est = LinearEstimator()
        # sample counts differ from schedule to schedule: the linear estimate does not depend on them
        d1 = [as_dist(ps, 10 + 7 * j) for j, ps in enumerate(split(f, sizes))]
        d2 = [as_dist(ps, 1000 - 90 * j) for j, ps in enumerate(split(g, sizes))]
        rs = est.calc_estimate_sequence(qt, [d1, d2, d1])
        r1 = est.calc_estimate(qt, d1)
        r2 = est.calc_estimate(qt, d2)
        A = qt.calc_matA()
        b = qt.calc_vecB()
        out = []
        for name, v, data in (("dataset 1", rs.estimated_var_sequence[0], f), ("dataset 2", rs.estimated_var_sequence[1], g)):
            resid = refs.mm(A, np.asarray(v, dtype=object).reshape(-1, 1)).reshape(-1) + b - np.array(data, dtype=object)
            out.append(Eq(f"{name}: A^T (A v + b - f) == 0", refs.mm(A.T, np.asarray(resid, dtype=object).reshape(-1, 1)).reshape(-1), np.zeros(A.shape[1]), 1e-6))
        out.append(Eq("sequence[0] == single estimate of dataset 1", rs.estimated_var_sequence[0], r1.estimated_var, 0.0))
        out.append(Eq("sequence[1] == single estimate of dataset 2", rs.estimated_var_sequence[1], r2.estimated_var, 0.0))
        out.append(Eq("sequence[2] == sequence[0] (same data)", rs.estimated_var_sequence[2], rs.estimated_var_sequence[0], 0.0))
        out.append(Holds("sequence length", len(rs.estimated_var_sequence) == 3 and len(rs.estimated_qoperation_sequence) == 3))
        out.append(Eq("estimated_qoperation_sequence[1] from estimated_var_sequence[1]", rs.estimated_qoperation_sequence[1].to_var(), rs.estimated_var_sequence[1], 1e-9))
        return out
    return FnOb([(f"f{i}", "real", -2.0, 2.0) for i in range(nf)], run)


def obligations(tier):
    out = []
    for tomo in TOMO_TYPE:
        for s in tiers(tier, ["Q1"], ["Q1", "T1"]):
            for m in ([0] if tomo in ("qst", "qpt") else tiers(tier, [2, 3], [2, 3])):
                if tomo == "qmpt" and s == "T1":
                    continue
                if tomo in ("qpt",) and s == "T1" and tier == "quick":
                    continue
                for flag in (True, False):
                    overs = (False, True) if s == "Q1" else (False,)
                    if s == "Q1" and tomo in ("qst", "qpt"):
                        overs = overs + ("uneven", "unbal2")
                    for over in overs:
                        if tier == "quick" and tomo == "qmpt" and (m == 3 and over):
                            continue
                        cfg = {"tomo": tomo, "sysname": s, "m": m, "flag": flag, "over": over}
                        out += specs("C09.recover", [cfg], ob_recover, 3)
                        out += specs("C09.normal_eq", [cfg], ob_normal_eq, 3)
    return out


if __name__ == "__main__":
    sys.exit(main("C09", "c09"))
