#!/usr/bin/env python
"""C16 -- outcome-probability bookkeeping obeys probability theory."""
from common import *
import itertools


def tiers(tier, quick, thorough):
    return quick if tier == "quick" else thorough


def prod(xs):
    r = 1
    for x in xs:
        r *= x
    return r


# ---- index maps (concrete shape, symbolic indices) ---------------------------------------------
def ob_idx_serial(shape):
    """serial -> multi -> serial, range of the multi index, row-major law"""
    shape = list(shape)
    N = prod(shape)

    def run(I):
        from quara.utils import index_util as IU
        s = I["s"]
        md = IU.index_multi_dimensional_from_index_serial(shape, s)
        out = [Holds("len(multi)==len(shape)", len(md) == len(shape))]
        out.append(Holds("0<=multi[k]<shape[k]", s_and([in_range(md[k], 0, shape[k]) for k in range(len(shape))])))
        back = IU.index_serial_from_index_multi_dimensional(shape, md)
        out.append(Holds("serial(multi(s))==s", SBool.of(back == s)))
        rm = 0
        for k in range(len(shape)):
            rm = rm * shape[k] + md[k]
        out.append(Holds("row-major: s == ((i0*n1+i1)*n2+i2)...", SBool.of(rm == s)))
        return out
    return FnOb([("s", "int", 0, N - 1)], run)


def ob_idx_multi(shape):
    shape = list(shape)

    def run(I):
        from quara.utils import index_util as IU
        md = tuple(I[f"i{k}"] for k in range(len(shape)))
        s = IU.index_serial_from_index_multi_dimensional(shape, md)
        rm = 0
        for k in range(len(shape)):
            rm = rm * shape[k] + md[k]
        out = [Holds("serial == row-major formula", SBool.of(s == rm)), Holds("serial in range", in_range(s, 0, prod(shape)))]
        back = IU.index_multi_dimensional_from_index_serial(shape, s)
        out.append(Holds("multi(serial(md))==md", s_and([SBool.of(a == b) for a, b in zip(back, md)])))
        return out
    return FnOb([(f"i{k}", "int", 0, shape[k] - 1) for k in range(len(shape))], run)


# ---- MultinomialDistribution ----------------------------------------------------------------------
def _ps_inputs(n, lo=0.0):
    """n-1 free entries; the last entry is 1 - sum (so the tensor sums to 1 by construction)"""
    return [(f"p{i}", "real", lo, 1.0) for i in range(n - 1)]


def _simplex_sampler(n, lo, extra=None):
    """translator-validation points inside the probability simplex (all entries >= lo)"""
    def sample(rng):
        w = [rng.uniform(0.2, 1.0) for _ in range(n)]
        t = sum(w)
        ps = [lo + (1.0 - n * lo) * x / t for x in w]
        vals = {f"p{i}": ps[i] for i in range(n - 1)}
        if extra:
            vals.update(extra(rng))
        return vals
    return sample


def _last(I, n):
    tot = 1.0
    for i in range(n - 1):
        tot = tot - I[f"p{i}"]
    return tot


def _pvec(I, n):
    xs = [I[f"p{i}"] for i in range(n - 1)] + [_last(I, n)]
    if any(type(x) is Sym for x in xs):
        return SymNd(xs)
    return np.array(xs, dtype=np.float64)


def _sum1(I, n, lo=0.0):
    return [SBool.of(_last(I, n) >= lo)]


def ob_md_ctor(n, eps):
    """constructor: entries below eps_zero become 0, the others are renormalised; result is non-negative and sums to 1"""
    def run(I):
        from quara.objects.multinomial_distribution import MultinomialDistribution as MD
        ps = _pvec(I, n)
        orig = list(flat(ps))
        md = MD(ps.copy(), eps_zero=eps) if eps else MD(ps.copy())
        e = eps if eps else 1e-8
        kept = [ite(SBool.of(x < e), 0.0, x) for x in orig]
        tot = 0
        for x in kept:
            tot = tot + x
        out = [Holds("entries >= 0", s_and([SBool.of(x >= 0) for x in flat(md.ps)]))]
        out.append(Holds("sub-threshold entries are exactly 0", s_and([implies(SBool.of(o < e), SBool.of(x == 0)) for o, x in zip(orig, flat(md.ps))])))
        s = 0
        for x in flat(md.ps):
            s = s + x
        out.append(Holds("sum == 1 (1e-9)", SBool.of(s <= 1 + 1e-9) & SBool.of(s >= 1 - 1e-9)))
        # ps_i * sum(kept) == kept_i  (renormalised kept entries), cross-multiplied to stay polynomial
        for i, x in enumerate(flat(md.ps)):
            out.append(Eq(f"ps[{i}]*sum(kept) == kept[{i}]", x * tot, kept[i], 1e-9))
        out.append(Holds("is_zero_dist is False", md.is_zero_dist == False))
        out.append(Holds("shape", md.shape == (n,)))
        return out
    return FnOb(_ps_inputs(n), run, assume=lambda I: _sum1(I, n), max_paths=300, expect_nonlinear=True)


def _tensor(I, shape):
    return _pvec(I, prod(shape))


def ob_md_marginal(shape, remain, lo):
    """marginalize(remain): sums over the removed variables; layout consistent with the reported shape
    (retained variables in ascending original order, or consistently in the requested order)"""
    shape = tuple(shape)
    n = prod(shape)
    remain = list(remain)

    def run(I):
        from quara.objects.multinomial_distribution import MultinomialDistribution as MD
        ps = _tensor(I, shape)
        md = MD(ps.copy(), shape)
        T = np.array(md.ps, dtype=object, copy=True).reshape(shape)     # the distribution the object denotes (a snapshot)
        mg = md.marginalize(remain)
        out = [Eq("the joint distribution is unchanged by marginalize", np.asarray(md.ps, dtype=object).reshape(shape), T, 0.0)]
        asc = sorted(remain)
        variants = []
        for order in ([asc] if asc == remain else [asc, remain]):
            eshape = tuple(shape[k] for k in order)
            parts = [mg.shape == eshape]
            if mg.shape == eshape and len(flat(mg.ps)) == prod(eshape):
                for idx in np.ndindex(eshape):
                    tot = 0
                    for full in np.ndindex(shape):
                        if all(full[k] == idx[j] for j, k in enumerate(order)):
                            tot = tot + T[full]
                    got = mg[tuple(int(t) for t in idx)]
                    d = Sym.of(got) - Sym.of(tot)
                    parts.append(SBool.of(d <= 1e-9) & SBool.of(d >= -1e-9))
            else:
                parts.append(False)
            variants.append(s_and(parts))
        out.append(Holds("marginal == sum over removed variables, layout matches reported shape", s_or(variants)))
        s = 0
        for x in flat(mg.ps):
            s = s + x
        out.append(Holds("marginal sums to 1", SBool.of(s <= 1 + 1e-9) & SBool.of(s >= 1 - 1e-9)))
        return out
    return FnOb(_ps_inputs(n, lo), run, assume=lambda I: _sum1(I, n, lo), max_paths=300, expect_nonlinear=(lo < 1e-8))


def ob_md_conditional(shape, cvars, lo):
    """conditionalize: renormalised slice; joint = marginal x conditional; conditional sums to 1"""
    shape = tuple(shape)
    n = prod(shape)
    cvars = list(cvars)
    rest = [k for k in range(len(shape)) if k not in cvars]

    def run(I):
        from quara.objects.multinomial_distribution import MultinomialDistribution as MD
        ps = _tensor(I, shape)
        md = MD(ps.copy(), shape)
        T = np.array(md.ps, dtype=object, copy=True).reshape(shape)   # a snapshot: the reference must not follow a later write to md.ps
        mg = md.marginalize(cvars)
        out = []
        for cv in np.ndindex(tuple(shape[k] for k in cvars)):
            cv = tuple(int(t) for t in cv)
            cd = md.conditionalize(cvars, list(cv))
            eshape = tuple(shape[k] for k in rest)
            out.append(Holds(f"conditional{cv} shape", tuple(cd.shape) == eshape))
            # marginal probability of the conditioning event, from the definition (sum of the joint over the free variables)
            pm = 0
            for ridx in np.ndindex(eshape):
                full = [0] * len(shape)
                for j, k in enumerate(cvars):
                    full[k] = cv[j]
                for j, k in enumerate(rest):
                    full[k] = ridx[j]
                pm = pm + T[tuple(full)]
            if sorted(cvars) == cvars:
                out.append(Eq(f"marginalize(cvars){cv} == sum of the joint over the free variables", mg[cv] if len(cv) > 1 else mg[cv[0]], pm, 1e-9))
            s = 0
            for ridx in np.ndindex(eshape):
                full = [0] * len(shape)
                for j, k in enumerate(cvars):
                    full[k] = cv[j]
                for j, k in enumerate(rest):
                    full[k] = ridx[j]
                ridx = tuple(int(t) for t in ridx)
                pc = cd[ridx] if len(ridx) > 1 else cd[ridx[0]]
                out.append(Eq(f"marginal{cv} * conditional{ridx} == joint", pm * pc, T[tuple(full)], 1e-9))
                s = s + pc
            out.append(Holds(f"conditional{cv} sums to 1", SBool.of(s <= 1 + 1e-9) & SBool.of(s >= 1 - 1e-9)))
            out.append(Eq(f"the joint distribution is unchanged by conditionalize{cv}", np.asarray(md.ps, dtype=object).reshape(shape), T, 0.0))
        return out
    return FnOb(_ps_inputs(n, lo), run, assume=lambda I: _sum1(I, n, lo), max_paths=300, expect_nonlinear=True,
                exact_timeout_ms=120000, tv_sampler=_simplex_sampler(n, max(lo, 1e-3)))


def ob_md_getitem(shape, eps=None):
    """__getitem__ with a tuple index is the row-major entry of the distribution's (adjusted) probabilities; int index is the serial
    entry; with a non-default zero threshold eps the entries below it are zeroed and the rest renormalised first"""
    shape = tuple(shape)
    n = prod(shape)

    def run(I):
        from quara.objects.multinomial_distribution import MultinomialDistribution as MD
        from quara.objects.prob_dist import ProbDist
        ps = _tensor(I, shape)
        md = MD(ps.copy(), shape, eps_zero=eps) if eps else MD(ps.copy(), shape)
        idx = tuple(I[f"i{k}"] for k in range(len(shape)))
        rm = 0
        for k in range(len(shape)):
            rm = rm * shape[k] + idx[k]
        if eps:
            # reference for the documented adjustment: entries below eps become 0, the others are divided by what is left
            orig = list(flat(ps))
            kept = [ite(SBool.of(x < eps), 0.0, x) for x in orig]
            tot = 0
            for x in kept:
                tot = tot + x
            cells = [x / tot for x in kept]
            tol = 1e-9
        else:
            cells = list(flat(ps))
            tol = 0.0
        out = [Eq("md[(i,j,..)] == (adjusted) ps[row-major]", md[idx], select(cells, rm), tol)]
        out.append(Eq("md[s] == (adjusted) ps[s]", md[I["s"]], select(cells, I["s"]), tol))
        out.append(Eq("md[(i,j,..)] == md.ps[row-major] (tuple access reads the distribution's own probabilities)", md[idx], select(list(flat(md.ps)), rm), 0.0))
        if not eps:
            pd = ProbDist(ps.copy(), shape)
            out.append(Eq("ProbDist[(i,j,..)] == ps[row-major]", pd[idx], select(cells, rm), 0.0))
        return out
    lo = 0.0 if eps else 1e-6
    return FnOb(_ps_inputs(n, lo) + [(f"i{k}", "int", 0, shape[k] - 1) for k in range(len(shape))] + [("s", "int", 0, n - 1)], run,
                assume=lambda I: _sum1(I, n, lo), max_paths=2000, expect_nonlinear=bool(eps), eager_ite=bool(eps))


def ob_validate(n, validate_sum):
    """validate_prob_dist raises exactly when some entry is below -eps or (validate_sum) |sum-1| > eps"""
    def run(I):
        from quara.math.probability import validate_prob_dist
        ps = vec_of(I, "q", n)
        eps = I["eps"]
        try:
            validate_prob_dist(ps, eps=eps, validate_sum=validate_sum)
            raised = False
        except ValueError:
            raised = True
        neg = s_or([SBool.of(I[f"q{i}"] < -eps) for i in range(n)])
        tot = 0
        for i in range(n):
            tot = tot + I[f"q{i}"]
        bad = neg | (s_or([SBool.of(tot - 1 > eps), SBool.of(tot - 1 < -eps)]) if validate_sum else False)
        return [Holds("raises iff definition violated", iff(raised, bad))]
    return FnOb([(f"q{i}", "real", -2.0, 2.0) for i in range(n)] + [("eps", "real", 1e-12, 1e-2)], run, max_paths=300)


def shapes(max_vars, max_val):
    out = []
    for k in range(1, max_vars + 1):
        out += list(itertools.product(range(1, max_val + 1), repeat=k))
    return out


def obligations(tier):
    out = []
    shp = tiers(tier, shapes(3, 4), shapes(4, 5))
    out += specs("C16.idx.serial", [{"shape": list(s)} for s in shp], ob_idx_serial, 0.1)
    out += specs("C16.idx.multi", [{"shape": list(s)} for s in shp], ob_idx_multi, 0.1)
    out += specs("C16.md.ctor", [{"n": n, "eps": e} for n in tiers(tier, [2, 3, 4], [2, 3, 4, 5, 6]) for e in (None, 1e-3)], ob_md_ctor, 3)
    mshapes = tiers(tier, [(2, 3), (3, 2), (2, 2, 2)], [(2, 3), (3, 2), (2, 2, 2), (2, 3, 2), (3, 2, 4), (2, 2, 2, 2), (4, 5)])
    for s in mshapes:
        subsets = []
        for r in range(1, len(s) + 1):
            for comb in itertools.permutations(range(len(s)), r):
                subsets.append(list(comb))
        if tier == "quick":
            subsets = [x for x in subsets if len(x) <= 2][:8]
        for rem in subsets:
            out += specs("C16.md.marginal", [{"shape": list(s), "remain": rem, "lo": 2e-8}], ob_md_marginal, 1)
    for s in tiers(tier, [(2, 2)], [(2, 2), (2, 3)]):
        for rem in tiers(tier, ([0], [1, 0]), ([0], [1], [1, 0])):
            out += specs("C16.md.marginal", [{"shape": list(s), "remain": rem, "lo": 0.0}], ob_md_marginal, 4)
    for s, cv in tiers(tier, [((2, 2), [0]), ((2, 3), [1]), ((3, 2), [0]), ((2, 2, 2), [2, 0]), ((2, 2, 2), [0, 1]), ((2, 1, 3), [0]), ((2, 1), [0]), ((1, 2), [1])],
                       [((2, 2), [0]), ((2, 3), [1]), ((3, 2), [0]), ((2, 2, 2), [0, 2]), ((2, 2, 2), [2, 0]), ((2, 2, 2), [1]), ((2, 3, 2), [1]),
                        ((2, 3, 2), [0, 1]), ((2, 3, 2), [1, 0]), ((2, 3, 2), [2, 1])]):
        out += specs("C16.md.conditional", [{"shape": list(s), "cvars": cv, "lo": 1e-3}], ob_md_conditional, 5)
    out += specs("C16.md.getitem", [{"shape": list(s)} for s in tiers(tier, [(2, 3), (2, 2, 2)], [(2, 3), (3, 4), (2, 2, 2), (2, 3, 2), (2, 2, 2, 2)])], ob_md_getitem, 2)
    out += specs("C16.md.getitem", [{"shape": list(s), "eps": 0.05} for s in [(2, 2)]], ob_md_getitem, 4)
    out += specs("C16.validate", [{"n": n, "validate_sum": v} for n in tiers(tier, [2, 3], [2, 3, 4, 5]) for v in (True, False)], ob_validate, 2)
    return out


def xhair_index(tier, seed):
    """CrossHair on the real index_util functions with SYMBOLIC shape entries (non-linear index arithmetic)"""
    from symq import xhair
    maxv = 4 if tier == "quick" else 5
    src = ['import sys', 'sys.path.insert(0, %r)' % qenv.REPO,
           'from quara.utils.index_util import index_multi_dimensional_from_index_serial as to_md, index_serial_from_index_multi_dimensional as to_ser', '']
    for k in ([1, 2, 3] if tier == "quick" else [1, 2, 3, 4]):
        ns = [f"n{j}" for j in range(k)]
        idx = [f"i{j}" for j in range(k)]
        mk = maxv if k < 4 else 3          # four symbolic shape entries: values 1..3 (1..4 and 1..5 are not confirmed within the time limit)
        pre_n = " and ".join(f"1 <= {n} <= {mk}" for n in ns)
        prodn = " * ".join(ns)
        lst = "[" + ", ".join(ns) + "]"
        rm = idx[0]
        for j in range(1, k):
            rm = f"({rm}) * {ns[j]} + {idx[j]}"
        src += [f"def roundtrip{k}({', '.join(n + ': int' for n in ns)}, s: int) -> int:", '    """', f"    pre: {pre_n}", f"    pre: 0 <= s < {prodn}", "    post: _ == s", '    """',
                f"    return to_ser({lst}, to_md({lst}, s))", ""]
        src += [f"def range{k}({', '.join(n + ': int' for n in ns)}, s: int) -> bool:", '    """', f"    pre: {pre_n}", f"    pre: 0 <= s < {prodn}", "    post: _ == True", '    """',
                f"    md = to_md({lst}, s)", f"    return len(md) == {k} and " + " and ".join(f"0 <= md[{j}] < {ns[j]}" for j in range(k)), ""]
        src += [f"def rowmajor{k}({', '.join(n + ': int' for n in ns)}, {', '.join(i + ': int' for i in idx)}) -> int:", '    """', f"    pre: {pre_n}",
                "    pre: " + " and ".join(f"0 <= {idx[j]} < {ns[j]}" for j in range(k)), f"    post: _ == {rm}", '    """',
                f"    return to_ser({lst}, ({', '.join(idx)},))", ""]
        src += [f"def inverse{k}({', '.join(n + ': int' for n in ns)}, {', '.join(i + ': int' for i in idx)}) -> bool:", '    """', f"    pre: {pre_n}",
                "    pre: " + " and ".join(f"0 <= {idx[j]} < {ns[j]}" for j in range(k)), "    post: _ == True", '    """',
                f"    return to_md({lst}, to_ser({lst}, ({', '.join(idx)},))) == ({', '.join(idx)},)", ""]
        src += [f"def vacuity_twin{k}({', '.join(n + ': int' for n in ns)}, s: int) -> bool:", '    """', f"    pre: {pre_n}", f"    pre: 0 <= s < {prodn}", "    post: _ == False", '    """',
                f"    return to_ser({lst}, to_md({lst}, s)) == s", ""]
    return xhair.run("c16_index", "\n".join(src), timeout=60 if tier == "quick" else 240)


if __name__ == "__main__":
    sys.exit(main("C16", "c16", extra_engines=[xhair_index]))
