#!/usr/bin/env python
"""C15 (partial) -- Monte-Carlo simulations: seed data-flow of the serial simulation entry points (repetitions use independent draws,
runs are functions of the seed), re-estimation from stored empirical distributions, depolarising noise model.
NOT covered (outside, see DESIGN.md 3/C15 and 7.7): the joblib-parallel test-setting flow, pickled results, random Lindbladian
generation, the built-in physicality check."""
from common import *
import contextlib, io
import c03, c14, tomo_lib, objlib

TYPES = ["state", "povm", "gate", "mprocess"]


def tiers(tier, quick, thorough):
    return quick if tier == "quick" else thorough


def quiet():
    return contextlib.redirect_stderr(io.StringIO())


def atoms_in(x):
    return c14.atoms_of_result(x)


def truth_of(tomo):
    return {"qst": lambda: tomo_lib.states("Q1")[4], "povmt": lambda: tomo_lib.povms("Q1")[3],
            "qpt": lambda: objlib.gates("Q1")["ampdamp"], "qmpt": lambda: objlib.mprocesses("Q1")["trine3"]}[tomo]()


def ob_repetitions(tomo, seedkind, nrep):
    """generate_empi_dists_and_calc_estimate / execute_simulation with n_rep repetitions, every PRNG draw a fresh symbol of its stream
    (multinomial.rvs and numpy.random replaced by their contracts): the repetitions consume pairwise DISJOINT draws (they are not copies
    of one another); with an integer seed all draws belong to that seed's stream and the global stream is untouched, and the same seed
    again gives the same draws; re-estimating from the stored empirical distributions reproduces the stored estimates"""
    def run(I):
        import quara.simulation.standard_qtomography_simulation as SIM
        from quara.protocol.qtomography.standard.linear_estimator import LinearEstimator
        kw = {"m": 3} if tomo in ("povmt", "qmpt") else {}
        out = []
        if not core.CTX.active:
            # concrete counterpart on the real PRNG: repetitions differ, same seed reproduces
            qt, _ = tomo_lib.build(tomo, "Q1", **kw)
            seed = {"int": 7, "generator": np.random.Generator(np.random.MT19937(7)), "none": None}[seedkind]
            np.random.seed(1234)
            with quiet():
                r = SIM.generate_empi_dists_and_calc_estimate(qt, truth_of(tomo), [40, 200], LinearEstimator(), iteration=nrep, seed_or_generator=seed)
            reps = [np.concatenate([np.concatenate([d[1] for d in step]) for step in rep]) for rep in r.empi_dists_sequences]
            for i in range(nrep):
                for j in range(i + 1, nrep):
                    out.append(Holds(f"repetitions {i} and {j} are not copies of one another", not np.array_equal(reps[i], reps[j])))
            if seedkind == "int":
                with quiet():
                    r2 = SIM.generate_empi_dists_and_calc_estimate(qt, truth_of(tomo), [40, 200], LinearEstimator(), iteration=nrep, seed_or_generator=7)
                reps2 = [np.concatenate([np.concatenate([d[1] for d in step]) for step in rep]) for rep in r2.empi_dists_sequences]
                out.append(Holds("same integer seed: the same run", all(np.array_equal(a, b) for a, b in zip(reps, reps2))))
            return out
        with c14.prng_stub() as st:
            qt, _ = tomo_lib.build(tomo, "Q1", **kw)
            truth = truth_of(tomo)
            st.ns.random(2)
            seed = {"int": 7, "generator": c14.FakeGen(st.streams, "shared"), "none": None}[seedkind]
            g0 = st.streams.counters.get(st.ns.gid, 0)
            with quiet():
                r = SIM.generate_empi_dists_and_calc_estimate(qt, truth, [4, 9], LinearEstimator(), iteration=nrep, seed_or_generator=seed)
            g1 = st.streams.counters.get(st.ns.gid, 0)
            reps = [atoms_in(rep) for rep in r.empi_dists_sequences]
            out.append(Holds("one entry per repetition", len(r.empi_dists_sequences) == nrep and len(r.estimation_results) == nrep))
            for i in range(nrep):
                out.append(Holds(f"repetition {i} consumes random draws", bool(reps[i])))
                for j in range(i + 1, nrep):
                    out.append(Holds(f"repetitions {i} and {j} use disjoint draws (not copies of one another)", reps[i].isdisjoint(reps[j])))
            want = {"int": "[seed:7]", "generator": "[shared]", "none": "[G"}[seedkind]
            out.append(Holds("all draws come from the stream the seed argument designates", all(want in nm for s_ in reps for nm in s_)))
            if seedkind != "none":
                out.append(Holds("explicit seed / generator: the global stream is not consumed", g0 == g1))
            if seedkind == "int":
                with quiet():
                    r2 = SIM.generate_empi_dists_and_calc_estimate(qt, truth, [4, 9], LinearEstimator(), iteration=nrep, seed_or_generator=7)
                out.append(Holds("same integer seed again: the same draws, repetition by repetition",
                                 [atoms_in(rep) for rep in r2.empi_dists_sequences] == reps))
                for a, b in zip(r.estimation_results, r2.estimation_results):
                    for va, vb in zip(a.estimated_var_sequence, b.estimated_var_sequence):
                        out.append(Eq("same integer seed again: the same estimates", va, vb, 0.0))
            # re-estimation from the stored empirical distributions
            for k, rep in enumerate(r.empi_dists_sequences):
                again = SIM._execute_estimation(qt, rep, LinearEstimator())
                for va, vb in zip(again.estimated_var_sequence, r.estimation_results[k].estimated_var_sequence):
                    out.append(Eq(f"repetition {k}: re-estimation from the stored empirical distributions reproduces the stored estimate", va, vb, 0.0))
        return out
    return FnOb([], run, max_paths=200, tv_points=0, explore_budget=600,
                stubs=["numpy.random / MT19937 / Generator: streams of uninterpreted draws (data-flow only)",
                       "scipy.stats.multinomial.rvs: contract stub (counts >= 0, sum == n)"],
                outside=["joblib-parallel flow (standard_qtomography_simulation_flow), pickled results, SeedSequence.spawn"])


SETTING_FIELDS = ["name", "seed_data", "n_rep", "num_data", "schedules", "eps_proj_physical", "eps_truncate_imaginary_part", "loss_option", "algo_option"]


def _template(qt):
    so = qt._set_qoperations
    for lst in (so.states, so.povms, so.gates, so.mprocesses):
        if lst:
            return lst[0]


def ob_stored_setting(tomo):
    """execute_simulation stores the setting of the run in its result, and re-estimation rebuilds the tomography from that stored
    setting: with every field of the setting given a DIFFERENT value, the stored setting carries the same fields, and the tomography
    rebuilt from it has the same tolerances, seed, schedules and coefficient matrix as the tomography rebuilt from the original"""
    def run(I):
        import quara.simulation.standard_qtomography_simulation as SIM
        from quara.protocol.qtomography.standard.linear_estimator import LinearEstimator
        kw = {"m": 3} if tomo in ("povmt", "qmpt") else {}
        with c14.prng_stub() as st:
            qt0, _ = tomo_lib.build(tomo, "Q1", **kw)
            ex = qt0._experiment
            testers = {"qst": lambda: list(ex.povms), "povmt": lambda: list(ex.states)}.get(tomo, lambda: list(ex.states) + list(ex.povms))()
            setting = SIM.StandardQTomographySimulationSetting(
                name="case-A", true_object=truth_of(tomo), tester_objects=testers, estimator=LinearEstimator(), seed_data=7, n_rep=2,
                num_data=[4, 9], schedules="all", eps_proj_physical=1e-3, eps_truncate_imaginary_part=1e-9)
            qt = SIM.generate_qtomography(setting, para=False)
            with quiet():
                res = SIM.execute_simulation(qt, setting)
            stored = res.simulation_setting
            out = [Holds("the stored setting is not the caller's object", stored is not setting)]
            for f in SETTING_FIELDS:
                out.append(Holds(f"stored setting: {f} as given", getattr(stored, f) == getattr(setting, f)))
            out.append(Eq("stored setting: true object as given", stored.true_object.to_stacked_vector(), setting.true_object.to_stacked_vector(), 0.0))
            out.append(Holds("stored setting: as many tester objects", len(stored.tester_objects) == len(setting.tester_objects)))
            for k, (a, b) in enumerate(zip(stored.tester_objects, setting.tester_objects)):
                out.append(Eq(f"stored setting: tester {k} as given", a.to_stacked_vector(), b.to_stacked_vector(), 0.0))
            out.append(Holds("stored setting: estimator of the same class", type(stored.estimator) is type(setting.estimator)))
            again = SIM.generate_qtomography(stored, para=False)
            ta, tb = _template(again), _template(qt)
            for f in ("eps_proj_physical", "eps_truncate_imaginary_part", "on_para_eq_constraint", "is_physicality_required"):
                out.append(Holds(f"tomography rebuilt from the stored setting: template {f}", getattr(ta, f) == getattr(tb, f)))
            out.append(Eq("tomography rebuilt from the stored setting: coefficient matrix", again.calc_matA(), qt.calc_matA(), 0.0))
            out.append(Eq("tomography rebuilt from the stored setting: constant vector", again.calc_vecB(), qt.calc_vecB(), 0.0))
            for k, rep in enumerate(res.empi_dists_sequences):
                re = LinearEstimator().calc_estimate_sequence(again, rep, is_computation_time_required=False)
                for va, vb in zip(re.estimated_var_sequence, res.estimation_results[k].estimated_var_sequence):
                    out.append(Eq(f"repetition {k}: re-estimation with the rebuilt tomography reproduces the stored estimate", va, vb, 0.0))
        return out
    return FnOb([], run, max_paths=50, tv_points=0, explore_budget=600,
                stubs=["numpy.random / MT19937 / Generator: streams of uninterpreted draws (data-flow only)",
                       "scipy.stats.multinomial.rvs: contract stub (counts >= 0, sum == n)"],
                outside=["estimators whose result depends on eps_proj_physical (Dykstra stopping rule) -- the tolerance itself is claimed instead"])


def depol_spectral(sysname):
    """spectral parametrisation of the Choi matrix of the depolarising channel diag(1, 1-p, ..., 1-p): eigenvalue d - (d - 1/d) p on the
    maximally entangled vector, p/d on its orthogonal complement (frame computed once from a concrete instance)"""
    d = DIMS[sysname]
    n = d * d
    B = basis_of(sysname)
    hs = np.diag([1.0] + [0.5] * (n - 1))
    C = np.asarray(nd.to_concrete(refs.ref_choi(hs, B)), dtype=complex)
    w, V = np.linalg.eigh(C)
    return V        # ascending: (n - 1) times p/d, then the large eigenvalue


def ob_depolarized(typ, sysname, m):
    """DepolarizedQOperationGenerationSetting(base, error_rate=p).generate() for symbolic p in [0,1] and a symbolic base object: the
    result is (1-p) * base + p * (base with its traceless part removed), i.e. the ideal object mixed with the maximally mixed one in
    proportion p; the depolarising channel itself passes the library's physicality test for every p in [0,1]"""
    from symq import stubs
    d = DIMS[sysname]
    n = d * d
    ns = c03.n_stacked(typ, d, m)

    def run(I):
        from quara.simulation.depolarized_qoperation_generation_setting import DepolarizedQOperationGenerationSetting as DS
        c = qenv.csys(sysname)
        p = I["p"]
        x = vec_of(I, "x", ns)
        base = c03.make_obj(typ, c, x.copy(), m, False)
        V = depol_spectral(sysname)
        w = [p / d] * (n - 1) + [d - (d - 1.0 / d) * p]
        stubs.spectral(w, V, "depolarizing-choi")
        got = DS(c, base, p, is_physicality_required=False).generate()
        xs = list(flat(x))
        ref = []
        if typ == "state":
            ref = [xs[0]] + [(1 - p) * v for v in xs[1:]]
        elif typ == "povm":
            for k in range(m):
                blk = xs[k * n:(k + 1) * n]
                ref += [blk[0]] + [(1 - p) * v for v in blk[1:]]
        else:
            # gate / measurement process: D_p o G, rows 1.. of every HS block scaled by (1-p)
            for k in range(max(m, 1)):
                blk = xs[k * n * n:(k + 1) * n * n]
                for r in range(n):
                    f = 1.0 if r == 0 else (1 - p)
                    ref += [f * v for v in blk[r * n:(r + 1) * n]]
        out = [Eq("generated object == (1-p) ideal + p (ideal with its traceless part removed)", got.to_stacked_vector(), np.array(ref, dtype=object), 1e-9),
               Holds("same type as the ideal object", type(got) is type(base))]
        return out
    return FnOb(reals("x", ns, -2.0, 2.0) + [("p", "real", 0.0, 1.0)], run, max_paths=50, expect_nonlinear=True,
                stubs=["np.linalg.eigvalsh/eigh on the Choi matrix of the depolarising channel: spectral parametrisation (eigenvalues linear in p)"])


def obligations(tier):
    out = []
    for tomo in tiers(tier, ["qst", "povmt"], ["qst", "povmt", "qpt", "qmpt"]):
        for sk in ("int", "generator", "none"):
            out += specs("C15.repetitions", [{"tomo": tomo, "seedkind": sk, "nrep": n} for n in tiers(tier, [3], [2, 4])], ob_repetitions, 3)
    out += specs("C15.stored_setting", [{"tomo": t} for t in tiers(tier, ["qst", "qpt"], ["qst", "povmt", "qpt", "qmpt"])], ob_stored_setting, 3)
    for typ in TYPES:
        m = 0 if typ in ("state", "gate") else 2
        # composite systems (two qubits): state and POVM in both tiers, gate in the thorough tier
        multi = ["Q2"] if typ in ("state", "povm") else tiers(tier, [], ["Q2"] if typ == "gate" else [])
        out += specs("C15.depolarized", [{"typ": typ, "sysname": s_, "m": m} for s_ in tiers(tier, ["Q1"], ["Q1", "T1"]) + multi], ob_depolarized, 3)
    return out


if __name__ == "__main__":
    sys.exit(main("C15", "c15"))
