#!/usr/bin/env python
"""C07 -- tensor products and embeddings respect subsystem structure."""
from common import *
import itertools
import objlib, tomo_lib

SINGLE = {"Q": refs.pauli(True), "T": refs.gell_mann()}
DIM1 = {"Q": 2, "T": 3}


def tiers(tier, quick, thorough):
    return quick if tier == "quick" else thorough


_ES = {}


def single_csys(kind, name):
    """one-subsystem CompositeSystem with the given integer name"""
    from quara.objects.composite_system import CompositeSystem
    from quara.objects.elemental_system import ElementalSystem
    from quara.objects import matrix_basis as mb
    key = (kind, name)
    if key not in _ES:
        b = mb.get_normalized_pauli_basis() if kind == "Q" else mb.get_normalized_gell_mann_basis()
        _ES[key] = CompositeSystem([ElementalSystem(name, b)])
    return _ES[key]


def sorted_basis(kinds, names):
    """reference basis of the composite system: Kronecker products of the single bases in ascending subsystem name"""
    order = sorted(range(len(kinds)), key=lambda i: names[i])
    out = [np.eye(1, dtype=complex)]
    for i in order:
        out = [np.kron(a, b) for a in out for b in SINGLE[kinds[i]]]
    return out, order


def kron_all(mats):
    out = np.asarray(mats[0], dtype=object)
    for m in mats[1:]:
        out = refs.kron(out, m)
    return out


def conc_vec(kind, idx):
    sysn = "Q1" if kind == "Q" else "T1"
    return tomo_lib.dm_to_vec(tomo_lib.state_mats(sysn)[idx], sysn)


def ob_state(kinds, names, sym):
    """tensor_product(states in the given argument order with the given subsystem names); factor `sym` symbolic (or 'all'):
    the density matrix of the result == Kronecker product of the factors' density matrices in ascending name order"""
    k = len(kinds)
    symset = list(range(k)) if sym == "all" else [sym]

    def run(I):
        from quara.objects.operators import tensor_product
        sts, dms = [], []
        for i in range(k):
            n = DIM1[kinds[i]] ** 2
            v = vec_of(I, f"v{i}_", n) if i in symset else conc_vec(kinds[i], (i + 2) % 4)
            sts.append(mk_state(single_csys(kinds[i], names[i]), v))
            dms.append(refs.ref_matrix(v, SINGLE[kinds[i]]))
        res = tensor_product(*sts)
        B, order = sorted_basis(kinds, names)
        got = refs.ref_matrix(res.vec, B)
        ref = kron_all([dms[i] for i in order])
        out = [Eq("density matrix == kron of factors in ascending name order", got, ref, 1e-8),
               Holds("composite system sorted by name", [e.name for e in res.composite_system.elemental_systems] == sorted(names))]
        if k <= 3:
            # the result's OWN composite system (its basis, and the density matrix computed with it); four factors: 256 basis matrices, skipped
            out.append(Eq("the result's own to_density_matrix() (its composite system's basis) == the same Kronecker product", res.to_density_matrix(), ref, 1e-8))
            Bl = qenv.dense_basis(res.composite_system)
            out.append(Eq("basis of the result's composite system == product basis in ascending name order", np.array(Bl, dtype=object), np.array(B, dtype=object), 1e-9))
        if k == 3 and sym != "all":
            # grouping: (a x b) x c == a x (b x c)
            alt = tensor_product(sts[0], tensor_product(sts[1], sts[2]))
            out.append(Eq("grouping independent", alt.vec, res.vec, 1e-8))
        return out
    inp = []
    for i in symset:
        inp += reals(f"v{i}_", DIM1[kinds[i]] ** 2, -10.0, 10.0)
    return FnOb(inp, run, expect_nonlinear=(sym == "all"))


def povm_lib(kind):
    sysn = "Q1" if kind == "Q" else "T1"
    mats = tomo_lib.povm_mats(sysn)
    return [[tomo_lib.dm_to_vec(E, sysn) for E in P] for P in mats], mats


def ob_povm(kinds, names, sym, pick):
    """product POVM: element at multi-index (i0,i1,..) in the reported nums_local_outcomes layout (row-major, subsystems in
    ascending name) == Kronecker product of the factors' elements"""
    k = len(kinds)

    def run(I):
        from quara.objects.operators import tensor_product
        pvs, mats = [], []
        for i in range(k):
            vecs_lib, mats_lib = povm_lib(kinds[i])
            vecs = [np.array(v) for v in vecs_lib[pick[i]]]
            ms = [np.asarray(m, dtype=object) for m in mats_lib[pick[i]]]
            if i == sym:
                n = DIM1[kinds[i]] ** 2
                vecs = [vec_of(I, f"e{j}_", n) for j in range(len(vecs))]
                ms = [refs.ref_matrix(v, SINGLE[kinds[i]]) for v in vecs]
            pvs.append(mk_povm(single_csys(kinds[i], names[i]), vecs))
            mats.append(ms)
        res = tensor_product(*pvs)
        B, order = sorted_basis(kinds, names)
        counts = [len(mats[i]) for i in order]
        out = [Holds("nums_local_outcomes == factors' outcome counts in ascending name order", list(res.nums_local_outcomes) == counts),
               Holds("num_outcomes", res.num_outcomes == int(np.prod(counts)))]
        for midx in itertools.product(*[range(c) for c in counts]):
            ref = kron_all([mats[i][midx[pos]] for pos, i in enumerate(order)])
            got = refs.ref_matrix(res.vec(tuple(midx)), B)
            out.append(Eq(f"element {midx}", got, ref, 1e-8))
        if k == 3:
            # grouping: a x (b x c) and (a x b) x c give the same POVM with the same outcome layout as the flat call
            for gname, alt in (("a x (b x c)", tensor_product(pvs[0], tensor_product(pvs[1], pvs[2]))),
                               ("(a x b) x c", tensor_product(tensor_product(pvs[0], pvs[1]), pvs[2]))):
                out.append(Holds(f"{gname}: nums_local_outcomes as for the flat call", list(alt.nums_local_outcomes) == counts))
                out.append(Holds(f"{gname}: number of elements", len(alt.vecs) == len(res.vecs)))
                for j in range(min(len(alt.vecs), len(res.vecs))):
                    out.append(Eq(f"{gname}: element {j} as for the flat call", alt.vecs[j], res.vecs[j], 1e-8))
        return out
    vecs_lib, _ = povm_lib(kinds[sym])
    inp = []
    for j in range(len(vecs_lib[pick[sym]])):
        inp += reals(f"e{j}_", DIM1[kinds[sym]] ** 2, -10.0, 10.0)
    return FnOb(inp, run)


def gate_lib(kind):
    sysn = "Q1" if kind == "Q" else "T1"
    return sysn, objlib.gate_kraus(sysn)


def ob_gate(kinds, names, sym, pick):
    """product gate acts factor-wise: HS of the result in the sorted product basis == Kronecker product of the factors' HS"""
    k = len(kinds)

    def run(I):
        from quara.objects.operators import tensor_product
        gs, hss = [], []
        for i in range(k):
            sysn, lib = gate_lib(kinds[i])
            n = DIM1[kinds[i]] ** 2
            hs = mat_of(I, "h", n, n) if i == sym else objlib.hs_from_kraus(lib[pick[i]], sysn)
            gs.append(mk_gate(single_csys(kinds[i], names[i]), hs))
            hss.append(hs)
        res = tensor_product(*gs)
        order = sorted(range(k), key=lambda i: names[i])
        ref = kron_all([hss[i] for i in order])
        out = [Eq("HS(result) == kron of the factors' HS in ascending name order", res.hs, ref, 1e-8),
               Holds("composite system sorted by name", [e.name for e in res.composite_system.elemental_systems] == sorted(names))]
        if k == 3:
            # other groupings, formed in the same process AFTER the flat call, and the reversed pair order: same operator
            alt1 = tensor_product(gs[0], tensor_product(gs[1], gs[2]))
            alt2 = tensor_product(tensor_product(gs[0], gs[1]), gs[2])
            out.append(Eq("a x (b x c) == flat call", alt1.hs, res.hs, 1e-8))
            out.append(Eq("(a x b) x c == flat call", alt2.hs, res.hs, 1e-8))
        if k == 2:
            rev = tensor_product(gs[1], gs[0])
            out.append(Eq("b x a (arguments swapped, formed after a x b) == a x b", rev.hs, res.hs, 1e-8))
        return out
    n = DIM1[kinds[sym]] ** 2
    return FnOb(reals("h", n * n, -10.0, 10.0), run)


def ob_mprocess(names, m1name, m2name, sym):
    """product of two 1-qubit measurement processes with different outcome counts: element at multi-index per the reported
    `shape` (row-major) == Kronecker product of the factors' HS, subsystems in ascending name"""
    def run(I):
        from quara.objects.operators import tensor_product
        lib = objlib.mprocess_kraus("Q1")
        hs_lists = []
        for i, nm in enumerate((m1name, m2name)):
            hl = [objlib.hs_from_kraus(ks, "Q1") for ks in lib[nm]]
            if i == sym:
                hl = [mat_of(I, f"h{j}_", 4, 4) for j in range(len(hl))]
            hs_lists.append(hl)
        mps = [mk_mprocess(single_csys("Q", names[i]), hs_lists[i]) for i in range(2)]
        res = tensor_product(mps[0], mps[1])
        order = sorted(range(2), key=lambda i: names[i])
        out = [Holds("shape has one entry per factor", len(res.shape) == 2),
               Holds("shape is a permutation of the factors' outcome counts", sorted(res.shape) == sorted(len(h) for h in hs_lists))]
        # which factor does each shape axis belong to?  the only consistent readings: argument order or ascending name order
        readings = []
        for axes in ([0, 1], order):
            if tuple(res.shape) != tuple(len(hs_lists[a]) for a in axes):
                continue
            parts = []
            for midx in itertools.product(*[range(s_) for s_ in res.shape]):
                sel = {axes[p]: midx[p] for p in range(2)}
                ref = kron_all([hs_lists[i][sel[i]] for i in order])
                got = res.hs(tuple(midx))
                d = np.asarray(got, dtype=object) - np.asarray(ref, dtype=object)
                parts.append(s_and([SBool.of(Sym.of(e) <= 1e-8) & SBool.of(Sym.of(e) >= -1e-8) for e in d.reshape(-1)]))
            readings.append(s_and(parts))
        out.append(Holds("element at each multi-index == product of the factors' elements (axes = arguments or = ascending names)", s_or(readings) if readings else False))
        return out
    lib = objlib.mprocess_kraus("Q1")
    nsym = len(lib[(m1name, m2name)[sym]])
    inp = []
    for j in range(nsym):
        inp += reals(f"h{j}_", 16, -10.0, 10.0)
    return FnOb(inp, run)


def ob_ensemble(names):
    """tensor product of two state ensembles produced by measurements with different outcome counts (2 and 3) on two qubits: in the
    layout the result reports, the state at (a, b) is rho_A[a] (x) rho_B[b] (Kronecker factors in ascending subsystem name) and the
    probability stored at (a, b) is p_A(a) p_B(b) (symbolic input state on subsystem A)"""
    def run(I):
        from quara.objects.operators import tensor_product, compose_qoperations as comp
        cA, cB = single_csys("Q", names[0]), single_csys("Q", names[1])
        libk = objlib.mprocess_kraus("Q1")
        mA = mk_mprocess(cA, [objlib.hs_from_kraus(ks, "Q1") for ks in libk["z_then_U"]])
        mB = mk_mprocess(cB, [objlib.hs_from_kraus(ks, "Q1") for ks in libk["trine3"]])
        t = I["t"]
        vA = tomo_lib.dm_to_vec(tomo_lib.state_mats("Q1")[4], "Q1") * (1 - t) + tomo_lib.dm_to_vec(tomo_lib.state_mats("Q1")[2], "Q1") * t
        vB = tomo_lib.dm_to_vec(tomo_lib.state_mats("Q1")[3], "Q1")
        eA = comp(mA, mk_state(cA, vA))
        eB = comp(mB, mk_state(cB, vB))
        res = tensor_product(eA, eB)
        pA, pB = list(flat(eA.prob_dist.ps)), list(flat(eB.prob_dist.ps))
        order = sorted(range(2), key=lambda i: names[i])
        # ensembles report their outcome shape in ARGUMENT order (first ensemble's outcomes slow); states and probabilities share that
        # layout, the state itself lives on the composite system sorted by name
        out = [Holds("reported shape == (outcomes of the first ensemble, outcomes of the second)", tuple(res.prob_dist.shape) == (2, 3))]
        for a in range(2):
            for b in range(3):
                idx = (a, b)
                out.append(Eq(f"probability at {idx} == p_A({a}) p_B({b})", res.prob_dist[idx], pA[a] * pB[b], 1e-9))
                stA, stB = eA.state(a), eB.state(b)
                factors = [stA, stB]
                ref = kron_all([refs.ref_matrix(factors[i].vec, SINGLE["Q"]) for i in order])
                Bj, _ = sorted_basis("QQ", list(names))
                out.append(Eq(f"state at {idx} == rho_A[{a}] (x) rho_B[{b}]", refs.ref_matrix(res.state(idx).vec, Bj), ref, 1e-8))
        # a third ensemble (two outcomes, concrete) on a third qubit: every grouping reports one axis per measurement, (2, 3, 2), and
        # the probability at (a, b, c) is the product of the three
        cC = single_csys("Q", 5)
        mC = mk_mprocess(cC, [objlib.hs_from_kraus(ks, "Q1") for ks in libk["zproj"]])
        eC = comp(mC, mk_state(cC, tomo_lib.dm_to_vec(tomo_lib.state_mats("Q1")[4], "Q1")))
        pC = list(flat(eC.prob_dist.ps))
        for label, r3 in (("(A x B) x C", tensor_product(res, eC)), ("A x (B x C)", tensor_product(eA, tensor_product(eB, eC))), ("flat call", tensor_product(eA, eB, eC))):
            out.append(Holds(f"{label}: reported shape == (2, 3, 2)", tuple(r3.prob_dist.shape) == (2, 3, 2)))
            out.append(Holds(f"{label}: 12 member states", len(r3.states) == 12))
            want = [pA[a] * pB[b] * pC[c_] for a in range(2) for b in range(3) for c_ in range(2)]
            out.append(Eq(f"{label}: probabilities == p_A(a) p_B(b) p_C(c) in row-major (a, b, c) order", r3.prob_dist.ps, np.array(want, dtype=object), 1e-9))
        return out
    return FnOb([("t", "real", 0.1, 0.9)], run, max_paths=60, expect_nonlinear=True, eager_ite=True)


def ob_basis(kinds):
    """tensor_product of matrix bases == Kronecker products in argument order (concrete identity)"""
    def run(I):
        from quara.objects.operators import tensor_product
        from quara.objects import matrix_basis as mb
        bs = [mb.get_normalized_pauli_basis() if kd == "Q" else mb.get_normalized_gell_mann_basis() for kd in kinds]
        res = tensor_product(*bs)
        ref = [np.eye(1, dtype=complex)]
        for kd in kinds:
            ref = [np.kron(a, b) for a in ref for b in SINGLE[kd]]
        got = [np.asarray(b.toarray() if hasattr(b, "toarray") else b) for b in res]
        return [Eq("basis elements", np.array(got), np.array(ref), 1e-12)]
    return FnOb([], run, tv_points=0)


# ---- embedding qutrit -> two qubits ---------------------------------------------------------------------
W_ISO = np.zeros((4, 3), dtype=complex)
W_ISO[0, 0] = W_ISO[1, 1] = W_ISO[2, 2] = 1          # |0>->|00>, |1>->|01>, |2>->|10>
P11 = np.zeros((4, 4), dtype=complex)
P11[3, 3] = 1


def qubit_pair_esys():
    from quara.objects.elemental_system import ElementalSystem
    from quara.objects import matrix_basis as mb
    return [ElementalSystem(10, mb.get_normalized_pauli_basis()), ElementalSystem(11, mb.get_normalized_pauli_basis())]


def embed(obj):
    from quara.objects.qoperation import QOperation
    return QOperation.embed_qoperation_from_qutrits_to_qubits(obj, qubit_pair_esys())


def ob_embed_state():
    """embedded state == W rho W† (W the isometry |k> -> two-qubit basis state k), for a symbolic qutrit state"""
    def run(I):
        c = qenv.csys("T1")
        v = vec_of(I, "v", 9)
        st = mk_state(c, v)
        e = embed(st)
        BQ2 = refs.ref_basis("Q2")
        got = refs.ref_matrix(e.vec, BQ2)
        rho = refs.ref_matrix(v, refs.gell_mann())
        ref = refs.mm(refs.mm(W_ISO, rho), W_ISO.conj().T)
        return [Eq("embedded density matrix == W rho W†", got, ref, 1e-8), Holds("two-qubit system", e.composite_system.dim == 4)]
    return FnOb(reals("v", 9, -10.0, 10.0), run)


def ob_embed_povm(m):
    """embedded POVM element == W E W† + (1/m)|11><11|: elements still sum to the identity when the qutrit POVM does, and
    statistics on embedded states are unchanged"""
    def run(I):
        c = qenv.csys("T1")
        vecs = [vec_of(I, f"e{k}_", 9) for k in range(m)]
        pv = mk_povm(c, vecs)
        e = embed(pv)
        BQ2 = refs.ref_basis("Q2")
        out = []
        tot = np.zeros((4, 4), dtype=object)
        for k in range(m):
            E = refs.ref_matrix(vecs[k], refs.gell_mann())
            got = refs.ref_matrix(e.vecs[k], BQ2)
            ref = np.asarray(refs.mm(refs.mm(W_ISO, E), W_ISO.conj().T), dtype=object) + P11 / m
            out.append(Eq(f"element {k} == W E W† + |11><11|/m", got, ref, 1e-8))
            # statistics on an embedded input: Tr(E' W rho W†) == Tr(E rho) for library states
            for j, R in enumerate(tomo_lib.state_mats("T1")[:4]):
                lhs = refs.tr(refs.mm(got, W_ISO @ R @ W_ISO.conj().T))
                rhs = refs.tr(refs.mm(E, R))
                out.append(Eq(f"element {k}, state {j}: statistics preserved", lhs, rhs, 1e-8))
        return out
    inp = []
    for k in range(m):
        inp += reals(f"e{k}_", 9, -10.0, 10.0)
    return FnOb(inp, run)


def ob_embed_gate():
    """qutrit channel p U.U† + (1-p) Z3.Z3† (U = identity, Z3 = clock matrix; orthogonal unitaries, so the Choi matrix has the
    spectral decomposition with eigenvalues 3(1-p) < 3p), symbolic p: the embedded gate is trace preserving and
    reproduces the qutrit statistics on embedded inputs"""
    from symq import stubs
    om = np.exp(2j * np.pi / 3)
    U = np.eye(3, dtype=complex)
    Z3 = np.diag([1, om, om ** 2])
    cols = [Z3.flatten() / np.sqrt(3), U.flatten() / np.sqrt(3)]
    # complete to an orthonormal frame of C^9 (deterministic Gram-Schmidt over the standard basis)
    frame = []
    for e in list(np.eye(9, dtype=complex)):
        v = e.copy()
        for q in cols + frame:
            v = v - np.vdot(q, v) * q
        if np.linalg.norm(v) > 1e-8:
            frame.append(v / np.linalg.norm(v))
        if len(frame) == 7:
            break
    V = np.array(frame + cols).T

    def run(I):
        c = qenv.csys("T1")
        p = I["p"]
        w = [0.0] * 7 + [3 * (1 - p), 3 * p]
        C = stubs.spectral(w, V, "choi")
        hs = refs.ref_hs_from_choi(C, refs.gell_mann()).real
        g = mk_gate(c, hs, eps_proj_physical=1e-9)
        e = embed(g)
        out = [Eq("embedded gate is trace preserving (first HS row == e0)", e.hs[0], np.eye(16)[0], 1e-7)]
        BQ2 = refs.ref_basis("Q2")
        for j, R in enumerate(tomo_lib.state_mats("T1")[3:6]):
            Rq = W_ISO @ R @ W_ISO.conj().T
            vin = np.array([np.trace(b.conj().T @ Rq) for b in BQ2]).real
            vout = refs.hs_apply(e.hs, vin)
            got = refs.ref_matrix(vout, BQ2)
            Rout = (U @ R @ U.conj().T).astype(object) * p + (Z3 @ R @ Z3.conj().T).astype(object) * (1 - p)
            ref = refs.mm(refs.mm(W_ISO, Rout), W_ISO.conj().T)
            out.append(Eq(f"embedded gate on embedded state {j} == embedding of the qutrit output", got, ref, 1e-7))
        return out
    return FnOb([("p", "real", 0.55, 0.95)], run, max_paths=200, expect_nonlinear=True, explore_budget=300,
                stubs=["np.linalg.eigh/eigvalsh: spectral parametrisation of the 9x9 Choi matrix (rank 2 family)"],
                outside=["qutrit gates outside the one-parameter family p U.U† + (1-p) Z3.Z3†"])


def ob_embed_mprocess():
    """qutrit measurement process with outcomes of DIFFERENT Kraus counts: outcome 0 = projector |0><0| (one Kraus operator), outcome 1 =
    p Q.Q + (1-p) Z'.Z' with Q = |1><1|+|2><2|, Z' = |1><1|-|2><2| (two orthogonal Kraus operators, symbolic p): the embedded
    process is trace preserving in total and reproduces every outcome's unnormalised qutrit output on embedded inputs"""
    from symq import stubs
    P0 = np.diag([1.0, 0, 0]).astype(complex)
    Q = np.diag([0, 1.0, 1.0]).astype(complex)
    Zp = np.diag([0, 1.0, -1.0]).astype(complex)
    cols = [Zp.flatten() / np.sqrt(2), Q.flatten() / np.sqrt(2)]
    frame = []
    for e in list(np.eye(9, dtype=complex)):
        v = e.copy()
        for q in cols + frame:
            v = v - np.vdot(q, v) * q
        if np.linalg.norm(v) > 1e-8:
            frame.append(v / np.linalg.norm(v))
        if len(frame) == 7:
            break
    V = np.array(frame + cols).T
    GM = refs.gell_mann()

    def run(I):
        c = qenv.csys("T1")
        p = I["p"]
        w = [0.0] * 7 + [2 * (1 - p), 2 * p]
        C1 = stubs.spectral(w, V, "choi1")
        hs1 = refs.ref_hs_from_choi(C1, GM).real
        hs0 = np.asarray(nd.to_concrete(refs.ref_hs_from_kraus([P0], GM)), dtype=complex).real.astype(np.float64)
        mp = mk_mprocess(c, [hs0, hs1], eps_proj_physical=1e-9)
        e = embed(mp)
        tot = np.asarray(e.hss[0], dtype=object)[0] + np.asarray(e.hss[1], dtype=object)[0]
        out = [Holds("two outcomes kept", len(e.hss) == 2),
               Eq("embedded process is trace preserving in total (sum of first HS rows == e0)", tot, np.eye(16)[0], 1e-7)]
        BQ2 = refs.ref_basis("Q2")
        for j, R in enumerate(tomo_lib.state_mats("T1")[3:6]):
            Rq = W_ISO @ R @ W_ISO.conj().T
            vin = np.array([np.trace(b.conj().T @ Rq) for b in BQ2]).real
            outs = [(P0 @ R @ P0).astype(object), (Q @ R @ Q).astype(object) * p + (Zp @ R @ Zp).astype(object) * (1 - p)]
            for x in range(2):
                got = refs.ref_matrix(refs.hs_apply(e.hss[x], vin), BQ2)
                ref = refs.mm(refs.mm(W_ISO, outs[x]), W_ISO.conj().T)
                out.append(Eq(f"outcome {x} of the embedded process on embedded state {j} == embedding of the qutrit output", got, ref, 1e-7))
        return out
    return FnOb([("p", "real", 0.55, 0.95)], run, max_paths=200, expect_nonlinear=True, explore_budget=300,
                stubs=["np.linalg.eigh/eigvalsh: spectral parametrisation of the 9x9 Choi matrix of outcome 1 (rank 2 family)"],
                outside=["qutrit measurement processes outside this one-parameter family"])


def obligations(tier):
    out = []
    out += specs("C07.embed.state", [{}], ob_embed_state, 2)
    out += specs("C07.embed.povm", [{"m": m} for m in tiers(tier, [2, 3], [2, 3, 4])], ob_embed_povm, 3)
    out += specs("C07.embed.gate", [{}], ob_embed_gate, 8)
    out += specs("C07.embed.mprocess", [{}], ob_embed_mprocess, 8)
    # states: every permutation of names, each factor symbolic in turn
    for kinds in tiers(tier, ["QQ", "QT", "QQT"], ["QQ", "QT", "TQ", "QQQ", "QQT", "QTQ", "TQT", "QQQQ", "QTQQ"]):
        k = len(kinds)
        perms = list(itertools.permutations(range(k)))
        if k == 4:
            perms = [(0, 1, 2, 3), (3, 1, 0, 2), (1, 0, 3, 2), (2, 3, 0, 1), (3, 2, 1, 0)] if tier == "thorough" else [(3, 1, 0, 2)]
            if "T" in kinds:
                perms = [(3, 1, 0, 2)]         # dimension 24: half an hour per obligation, one permutation with one symbolic factor
        for names in perms:
            for sym in (range(k) if (tier == "thorough" and not (k == 4 and "T" in kinds)) else [k - 1]):
                out += specs("C07.state", [{"kinds": kinds, "names": list(names), "sym": sym}], ob_state, k)
        if k == 2:
            out += specs("C07.state", [{"kinds": kinds, "names": [1, 0], "sym": "all"}], ob_state, 3)
    if tier == "thorough":
        out += specs("C07.state", [{"kinds": "QQQQ", "names": [3, 1, 0, 2], "sym": 0}], ob_state, 6)
    # POVMs with pairwise different outcome counts (library indices: Q: 0->2, 3->3, 4->4 outcomes; T: 0->2, 9->3)
    for kinds, pick in tiers(tier, [("QQ", [3, 0]), ("QT", [4, 9])], [("QQ", [3, 0]), ("QQ", [0, 4]), ("QT", [4, 9]), ("TQ", [9, 3]), ("QQQ", [0, 3, 4])]):
        k = len(kinds)
        for names in itertools.permutations(range(k)):
            for sym in ([0] if tier == "quick" else range(k)):
                out += specs("C07.povm", [{"kinds": kinds, "names": list(names), "sym": sym, "pick": pick}], ob_povm, 3)
    if tier == "quick":
        # three factors (flat call, a x (b x c), (a x b) x c) with the symbolic factor on the lowest / middle / highest name
        for names in ([0, 1, 2], [1, 0, 2], [2, 0, 1]):
            out += specs("C07.povm", [{"kinds": "QQQ", "names": names, "sym": 0, "pick": [0, 3, 0]}], ob_povm, 3)
    for kinds, pick in tiers(tier, [("QQ", ["ampdamp", "S"]), ("QT", ["ampdamp", "mix"])], [("QQ", ["ampdamp", "S"]), ("QT", ["ampdamp", "mix"]), ("TQ", ["mix", "S"]), ("QQQ", ["ampdamp", "S", "rx"])]):
        k = len(kinds)
        for names in itertools.permutations(range(k)):
            # quick: the cheap (qubit) factor symbolic; the 81-parameter qutrit factor symbolic only in the thorough tier
            for sym in ([0] if tier == "quick" else range(k)):
                out += specs("C07.gate", [{"kinds": kinds, "names": list(names), "sym": sym, "pick": pick}], ob_gate, 4)
    for names in ([0, 1], [1, 0]):
        for sym in tiers(tier, (1,), (0, 1)):
            out += specs("C07.mprocess", [{"names": names, "m1name": "trine3", "m2name": "z_then_U", "sym": sym}], ob_mprocess, 4)
    out += specs("C07.ensemble", [{"names": [0, 1]}, {"names": [1, 0]}], ob_ensemble, 4)
    out += specs("C07.basis", [{"kinds": kd} for kd in ("QQ", "QT", "TQ", "QQQ")], ob_basis, 0.5)
    return out


if __name__ == "__main__":
    sys.exit(main("C07", "c07"))
