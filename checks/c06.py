#!/usr/bin/env python
"""C06 -- composition implements quantum mechanics and is associative."""
from common import *
import objlib, tomo_lib
from objlib import symbolic_state, state_inputs, apply_kraus
import itertools

PMIN = 1e-3


def tiers(tier, quick, thorough):
    return quick if tier == "quick" else thorough


def dm(vec, sysname):
    return refs.ref_matrix(vec, basis_of(sysname))


def vec_of_dm(M, sysname):
    return refs.ref_vec(M, basis_of(sysname)).real


def born_ref(povm_mats, rho):
    return [refs.tr(refs.mm(E, rho)) for E in povm_mats]


def re_(x):
    return Sym.of(x).real if isinstance(x, Sym) else np.real(x)


def unnorm(vec, p_hint=None):
    """(numerators, denominator) of a state vector whose entries are quotients by a common denominator.
    At a concrete point (no quotient structure visible) the vector is rescaled by the reference probability p_hint so that
    both modes describe the same unnormalised operator"""
    xs = list(flat(vec))
    parts = [core.div_parts(x) if isinstance(x, Sym) else None for x in xs]
    dens = [p[1] for p in parts if p is not None]
    if dens and all(core.pkey(dd) == core.pkey(dens[0]) for dd in dens):
        d0 = Sym(dens[0])
        nums = []
        ok = True
        for x, p in zip(xs, parts):
            if p is not None:
                nums.append(Sym(p[0]))
            elif not isinstance(x, Sym) or x.is_const():
                nums.append(d0 * x)          # a quotient that simplified to a constant: c = (c*d)/d
            else:
                ok = False
                break
        if ok:
            if isinstance(p_hint, Sym) and p_hint.re.t and d0.re.t:
                # quotient atoms are stored with normalised numerator / denominator: rescale the pair so that the denominator
                # has the reference probability's scale (keeps symbolic and concrete runs comparable)
                f = core._lead(p_hint.re) / core._lead(d0.re)
                if f != 1:
                    nums = [x * f for x in nums]
                    d0 = d0 * f
            return nums, d0
    if p_hint is not None:
        return [Sym.of(x) * p_hint if isinstance(p_hint, Sym) or isinstance(x, Sym) else x * np.real(p_hint) for x in xs], p_hint
    return xs, 1.0


def ge_all(ps, lo):
    return [SBool.of(re_(p) >= lo) for p in ps]


# ---- pairs -----------------------------------------------------------------------------------------------
def ob_gate_state(sys, gname):
    ks = objlib.gate_kraus(sys)[gname]

    def run(I):
        from quara.objects.operators import compose_qoperations as comp
        c = qenv.csys(sys)
        g = objlib.gates(sys)[gname]
        v = symbolic_state(I, sys)
        st = mk_state(c, v)
        out = comp(g, st)
        ref = vec_of_dm(apply_kraus(ks, dm(v, sys)), sys)
        return [Eq("compose(G, rho).vec == vec(sum K rho K†)", out.vec, ref), Holds("type", type(out).__name__ == "State")]
    return FnOb(state_inputs(sys), run)


def ob_gate_gate(sys, g2, g1sym):
    """compose(G2, G1): G1 symbolic HS (or G2 symbolic), acting on a symbolic state = G2 after G1"""
    d = DIMS[sys]
    n = d * d

    def run(I):
        from quara.objects.operators import compose_qoperations as comp
        c = qenv.csys(sys)
        hs = mat_of(I, "h", n, n)
        gs = mk_gate(c, hs)
        gc = objlib.gates(sys)[g2]
        kc = objlib.gate_kraus(sys)[g2]
        first, second = (gs, gc) if g1sym else (gc, gs)
        cg = comp(second, first)
        out = [Eq("compose(G2,G1).hs == G2.hs @ G1.hs", cg.hs, refs.mm(second.hs, first.hs))]
        # semantics on every basis state vector e_b (columns of hs): G2(G1(B_b)); concrete factor through its Kraus operators
        B = basis_of(sys)
        for b in range(n):
            col = cg.hs[:, b]
            if g1sym:
                # G1(B_b) = sum_a hs[a,b] B_a ; then apply Kraus of G2
                M = refs.ref_matrix(hs[:, b], B)
                ref = vec_of_dm(apply_kraus(kc, M), sys)
            else:
                M = apply_kraus(kc, np.asarray(B[b], dtype=object))
                w = refs.ref_vec(M, B)
                ref = refs.hs_apply(hs, [re_(x) if True else x for x in w]) if all((not isinstance(x, Sym)) and abs(np.imag(complex(x))) < 1e-12 for x in w) else None
                if ref is None:
                    # B_b -> complex coefficients only for non-Hermitian bases; not the case here
                    continue
            out.append(Eq(f"(G2 o G1)(B_{b})", col, ref))
        return out
    return FnOb(reals("h", n * n, -10.0, 10.0), run)


def ob_born(sys, pidx):
    """Povm on a symbolic state: Born-rule distribution Tr(Pi_x rho), non-negative, sums to one, outcome order kept"""
    mats = tomo_lib.povm_mats(sys)[pidx]

    def assume(I):
        v = symbolic_state(I, sys)
        return ge_all(born_ref(mats, dm(v, sys)), PMIN)

    def run(I):
        from quara.objects.operators import compose_qoperations as comp
        c = qenv.csys(sys)
        pv = tomo_lib.povms(sys)[pidx]
        v = symbolic_state(I, sys)
        dist = comp(pv, mk_state(c, v))
        ref = [re_(p) for p in born_ref(mats, dm(v, sys))]
        ps = list(flat(dist.ps))
        tot = 0
        for x in ps:
            tot = tot + x
        return [Eq("ps == Tr(Pi_x rho)", np.array(ps, dtype=object), np.array(ref, dtype=object), 1e-9),
                Holds("non-negative", s_and([SBool.of(x >= 0) for x in ps])),
                Holds("sums to one", SBool.of(tot <= 1 + 1e-9) & SBool.of(tot >= 1 - 1e-9)),
                Holds("shape", tuple(dist.shape) == (len(mats),))]
    return FnOb(state_inputs(sys), run, assume=assume, eager_ite=True, max_paths=40, expect_nonlinear=True)


def ob_povm_gate(sys, pidx, gname):
    """Heisenberg picture: Tr(compose(P,G)_x rho) == Tr(P_x G(rho)) for a symbolic state"""
    mats = tomo_lib.povm_mats(sys)[pidx]
    ks = objlib.gate_kraus(sys)[gname]

    def run(I):
        from quara.objects.operators import compose_qoperations as comp
        c = qenv.csys(sys)
        pv = tomo_lib.povms(sys)[pidx]
        g = objlib.gates(sys)[gname]
        v = symbolic_state(I, sys)
        pg = comp(pv, g)
        rho = dm(v, sys)
        lhs = [re_(refs.tr(refs.mm(E, rho))) for E in [refs.ref_matrix(vec, basis_of(sys)) for vec in pg.vecs]]
        rhs = [re_(p) for p in born_ref(mats, apply_kraus(ks, rho))]
        return [Eq("Tr((P o G)_x rho) == Tr(P_x G(rho))", np.array(lhs, dtype=object), np.array(rhs, dtype=object)),
                Holds("number of outcomes kept", pg.num_outcomes == len(mats))]
    return FnOb(state_inputs(sys), run)


def mp_ref(outs, rho, sysname):
    """reference for a measurement process given by Kraus operators per outcome: (p_x, unnormalised post state vec)"""
    res = []
    for ks in outs:
        M = apply_kraus(ks, rho)
        res.append((re_(refs.tr(M)), vec_of_dm(M, sysname)))
    return res


def ob_mprocess_state(sys, mname):
    """MProcess on a symbolic state: outcome probabilities Tr(sum K rho K†) and post-measurement states
    (sum K rho K†)/p_x, layout (num_outcomes,); consistent with the POVM the process induces"""
    outs = objlib.mprocess_kraus(sys)[mname]

    def assume(I):
        v = symbolic_state(I, sys)
        return ge_all([p for p, _ in mp_ref(outs, dm(v, sys), sys)], PMIN)

    def run(I):
        from quara.objects.operators import compose_qoperations as comp
        c = qenv.csys(sys)
        mp = objlib.mprocesses(sys)[mname]
        v = symbolic_state(I, sys)
        st = mk_state(c, v)
        ens = comp(mp, st)
        ref = mp_ref(outs, dm(v, sys), sys)
        out = [Holds("type/shape", type(ens).__name__ == "StateEnsemble" and tuple(ens.prob_dist.shape) == (len(outs),) and len(ens.states) == len(outs))]
        out.append(Eq("probabilities == Tr(sum_k K rho K†)", ens.prob_dist.ps, np.array([p for p, _ in ref], dtype=object), 1e-9))
        for x, (p, uv) in enumerate(ref):
            num, den = unnorm(ens.state(x).vec, p)
            out.append(Eq(f"post state {x} * p_x == vec(sum K rho K†)  (cross-multiplied)", np.array([Sym.of(a) * p for a in num], dtype=object),
                          np.array([Sym.of(b) * den for b in uv], dtype=object), 1e-9))
        # induced POVM
        pv = mp.to_povm()
        born = comp(pv, st)
        out.append(Eq("to_povm() Born probabilities == process probabilities", born.ps, np.array([p for p, _ in ref], dtype=object), 1e-9))
        return out
    return FnOb(state_inputs(sys), run, assume=assume, eager_ite=True, max_paths=60, expect_nonlinear=True)


def ob_mprocess_zero(sys):
    """zero-probability outcomes: z-projective measurement of a state on the segment z0..(z0 mixed with x): outcome 1 has
    probability exactly 0 at t=0; here the whole segment keeps p_1 = 0 -> truncated branch: zero state, probabilities renormalised"""
    outs = objlib.mprocess_kraus(sys)["zproj"]

    def run(I):
        from quara.objects.operators import compose_qoperations as comp
        c = qenv.csys(sys)
        mp = objlib.mprocesses(sys)["zproj"]
        t = I["t"]
        # rho = |0><0| + t * (off-diagonal coherence that keeps the populations): p_1 == 0 exactly
        v = SymNd([1 / np.sqrt(2), 0.0, 0.0, 1 / np.sqrt(2)]) if isinstance(t, Sym) else np.array([1 / np.sqrt(2), 0.0, 0.0, 1 / np.sqrt(2)])
        v = v * 1.0
        v[1] = t * 0.0
        st = mk_state(c, v)
        ens = comp(mp, st)
        return [Eq("probabilities (1, 0)", ens.prob_dist.ps, np.array([1.0, 0.0]), 1e-9),
                Eq("zero-probability outcome -> zero state", ens.state(1).vec, np.zeros(4), 0.0),
                Eq("post state 0 == |0><0|", ens.state(0).vec, np.array([1 / np.sqrt(2), 0, 0, 1 / np.sqrt(2)]), 1e-9)]
    return FnOb([("t", "real", 0.0, 1.0)], run, eager_ite=True, max_paths=20)


def ob_povm_on_ensemble_zero(sys, which):
    """a POVM (symbolic elements) measured after a projective measurement process whose outcome `which` has probability exactly 0 for
    the input state: the joint distribution p(x1, x2) = Tr(E_x2 K_x1 rho K_x1†) keeps its (x1, x2) layout -- the zero-weight block stays
    in ITS place"""
    outs = objlib.mprocess_kraus(sys)["zproj"]

    def run(I):
        from quara.objects.operators import compose_qoperations as comp
        c = qenv.csys(sys)
        mp = objlib.mprocesses(sys)["zproj"]
        # input |1><1| (outcome 0 impossible) or |0><0| (outcome 1 impossible)
        v = np.array([1 / np.sqrt(2), 0.0, 0.0, (-1 if which == 0 else 1) / np.sqrt(2)])
        st = mk_state(c, v)
        e0 = vec_of(I, "e0_", 4)
        # second element = identity - first (the elements sum to the identity, so the joint distribution is normalised by construction and
        # the library's renormalisation of distributions is the identity map)
        idv = np.array([np.sqrt(2.0), 0.0, 0.0, 0.0])
        e = [e0, (SymNd(list(idv)) - e0) if nd.has_sym(e0) else idv - e0]
        pv = mk_povm(c, e)
        B = basis_of(sys)
        rho = dm(v, sys)
        ref = []
        for x1 in range(2):
            post = apply_kraus(outs[x1], rho)
            for x2 in range(2):
                ref.append(re_(refs.tr(refs.mm(refs.ref_matrix(e[x2], B), post))))
        out = []
        for name, res in (("chain", comp(pv, mp, st)), ("bracketed", comp(pv, comp(mp, st)))):
            out.append(Holds(f"{name}: shape (2, 2)", tuple(res.shape) == (2, 2)))
            out.append(Eq(f"{name}: joint probabilities in (x1, x2) order", res.ps, np.array(ref, dtype=object), 1e-9))
        return out
    return FnOb([("e0_0", "real", 0.3, 1.1), ("e0_1", "real", -0.2, 0.2), ("e0_2", "real", -0.2, 0.2), ("e0_3", "real", -0.2, 0.2)], run,
                eager_ite=True, max_paths=60, expect_nonlinear=True)


def ob_mm_zero(sys, m1, m2):
    """two measurement processes in a row where, GIVEN the first outcome, some second outcome has probability exactly zero (the same
    projective measurement twice; a projective measurement followed by the three-outcome process): the joint distribution is
    p(x1) p(x2|x1) -- each branch keeps its own weight -- for a symbolic input state, chain == bracketed == Kraus reference"""
    o1 = objlib.mprocess_kraus(sys)[m1]
    o2 = objlib.mprocess_kraus(sys)[m2]

    def ref_joint(rho):
        out = []
        for k1 in o1:
            for k2 in o2:
                ks = [b @ a for a in k1 for b in k2]
                out.append(re_(refs.tr(apply_kraus(ks, rho))))
        return out

    def assume(I):
        v = symbolic_state(I, sys)
        rho = dm(v, sys)
        first = [re_(refs.tr(apply_kraus(k1, rho))) for k1 in o1]
        return ge_all(first, 0.05)

    def run(I):
        from quara.objects.operators import compose_qoperations as comp
        c = qenv.csys(sys)
        M1 = objlib.mprocesses(sys)[m1]
        M2 = objlib.mprocesses(sys)[m2]
        v = symbolic_state(I, sys)
        st = mk_state(c, v)
        ref = ref_joint(dm(v, sys))
        out = []
        for name, ens in (("chain", comp(M2, M1, st)), ("bracketed", comp(comp(M2, M1), st))):
            out.append(Holds(f"{name}: shape == (outcomes of M1, outcomes of M2)", tuple(ens.prob_dist.shape) == (len(o1), len(o2))))
            out.append(Eq(f"{name}: joint probabilities == Tr(K2 K1 rho K1† K2†)", ens.prob_dist.ps, np.array(ref, dtype=object), 1e-9))
        return out
    return FnOb(state_inputs(sys), run, assume=assume, eager_ite=True, max_paths=200, expect_nonlinear=True)


def ens_signature(ens):
    """flat list of (p_x, numerators, denominator) describing a StateEnsemble or a distribution"""
    if type(ens).__name__ == "MultinomialDistribution":
        return list(flat(ens.ps)), tuple(ens.shape), None
    ps = list(flat(ens.prob_dist.ps))
    sts = [unnorm(s.vec) for s in ens.states]
    return ps, tuple(ens.prob_dist.shape), sts


def ob_mm(sys, m2, m1):
    """compose(M2, M1) (M1 acts first) applied to a symbolic state == compose(M2, compose(M1, rho)): same probabilities,
    same post states, same outcome layout (earlier outcome first), and both equal the Kraus reference"""
    o1 = objlib.mprocess_kraus(sys)[m1]
    o2 = objlib.mprocess_kraus(sys)[m2]

    def joint_ref(rho):
        res = []
        for k1 in o1:
            for k2 in o2:
                ks = [b @ a for a in k1 for b in k2]
                M = apply_kraus(ks, rho)
                res.append((re_(refs.tr(M)), vec_of_dm(M, sys)))
        return res

    def assume(I):
        v = symbolic_state(I, sys)
        return ge_all([p for p, _ in joint_ref(dm(v, sys))], PMIN)

    def run(I):
        from quara.objects.operators import compose_qoperations as comp
        c = qenv.csys(sys)
        M1 = objlib.mprocesses(sys)[m1]
        M2 = objlib.mprocesses(sys)[m2]
        v = symbolic_state(I, sys)
        st = mk_state(c, v)
        chain = comp(M2, M1, st)            # right fold: M1 first
        brack = comp(comp(M2, M1), st)
        ref = joint_ref(dm(v, sys))
        out = []
        for name, ens in (("chain", chain), ("bracketed", brack)):
            out.append(Holds(f"{name}: shape == (outcomes of M1, outcomes of M2)", tuple(ens.prob_dist.shape) == (len(o1), len(o2))))
            out.append(Eq(f"{name}: probabilities == Tr(K2 K1 rho K1† K2†) in (x1,x2) row-major order", ens.prob_dist.ps,
                          np.array([p for p, _ in ref], dtype=object), 1e-9))
        for x, (p, uv) in enumerate(ref):
            num, den = unnorm(brack.states[x].vec, p)
            scale = Sym.of(den) if isinstance(den, Sym) else den
            # numerators/denominators may be scaled differently along the two routes: compare cross-multiplied with the reference
            out.append(Eq(f"bracketed post state {x}: numerator * p_ref == vec_ref * denominator", np.array([Sym.of(a) * p for a in num], dtype=object),
                          np.array([Sym.of(b) * scale for b in uv], dtype=object), 1e-9))
        return out
    return FnOb(state_inputs(sys), run, assume=assume, eager_ite=True, max_paths=80, expect_nonlinear=True)


def ob_shape_kept(sys, gname, mname, shape):
    """a gate composed before / after a measurement process with a multi-axis outcome shape: the result keeps that shape and its
    outcome x is G o M_x resp. M_x o G (symbolic gate perturbation t)"""
    def run(I):
        from quara.objects.operators import compose_qoperations as comp
        c = qenv.csys(sys)
        G0 = objlib.gates(sys)[gname]
        t = I["t"]
        n = c.dim ** 2
        D = np.diag([1.0] + [0.0] * (n - 1))
        hsG = np.asarray(G0.hs, dtype=object) * (1 - t) + D.astype(object) * t       # mixture with the completely depolarising channel
        hsG = hsG.view(SymNd) if nd.has_sym(hsG) else hsG.astype(np.float64)
        G = mk_gate(c, hsG)
        M0 = objlib.mprocesses(sys)[mname]
        M = mk_mprocess(c, [h.copy() for h in M0.hss], shape=tuple(shape))
        # applied to a state: the ensemble's distribution keeps the multi-axis outcome shape
        st_ = mk_state(c, tomo_lib.dm_to_vec(tomo_lib.state_mats(sys)[4], sys))
        ens = comp(M, st_)
        GM = comp(G, M)      # M first, then G
        MG = comp(M, G)      # G first, then M
        out = [Holds("M on a state: the ensemble's distribution has the outcome shape of M", tuple(ens.prob_dist.shape) == tuple(shape)),
               Holds("G o M keeps the outcome shape", tuple(GM.shape) == tuple(shape)), Holds("M o G keeps the outcome shape", tuple(MG.shape) == tuple(shape)),
               Holds("number of outcomes kept", len(GM.hss) == len(M.hss) and len(MG.hss) == len(M.hss))]
        for x in range(len(M.hss)):
            out.append(Eq(f"(G o M)_{x} == hs(G) hs(M_{x})", GM.hss[x], refs.mm(hsG, M.hss[x]), 1e-9))
            out.append(Eq(f"(M o G)_{x} == hs(M_{x}) hs(G)", MG.hss[x], refs.mm(M.hss[x], hsG), 1e-9))
        return out
    return FnOb([("t", "real", 0.0, 1.0)], run, max_paths=20)


def chain_ref(kinds, names, sys, rho):
    """reference statistics of a time-ordered chain state -> [gate|mprocess]* -> (povm)?   (kinds in time order)"""
    branches = [((), rho)]
    for kind, name in zip(kinds, names):
        nxt = []
        if kind == "gate":
            ks = objlib.gate_kraus(sys)[name]
            nxt = [(lab, apply_kraus(ks, M)) for lab, M in branches]
        elif kind == "mprocess":
            outs = objlib.mprocess_kraus(sys)[name]
            for lab, M in branches:
                for x, ks in enumerate(outs):
                    nxt.append((lab + (x,), apply_kraus(ks, M)))
        elif kind == "povm":
            mats = tomo_lib.povm_mats(sys)[name]
            for lab, M in branches:
                for z, E in enumerate(mats):
                    nxt.append((lab + (z,), refs.tr(refs.mm(E, M))))
        branches = nxt
    return branches


def bracketings(items):
    """all ways of fully parenthesising a list (as nested 2-tuples)"""
    if len(items) == 1:
        return [items[0]]
    out = []
    for i in range(1, len(items)):
        for l in bracketings(items[:i]):
            for r in bracketings(items[i:]):
                out.append((l, r))
    return out


def eval_tree(tree, comp):
    if isinstance(tree, tuple):
        return comp(eval_tree(tree[0], comp), eval_tree(tree[1], comp))
    return tree


def ob_bracket(sys, kinds, names, one_param=False):
    """every type-valid bracketing of a time-ordered chain gives the same statistics in the same (row-major, earlier outcome
    first) order, equal to the Kraus / Born reference.   kinds/names in TIME order, first item is the symbolic state"""
    def seg_state(I):
        if not one_param:
            return symbolic_state(I, sys)
        sts = tomo_lib.states(sys)
        a, b = sts[4].vec, sts[3].vec
        t = I["t"]
        return a * t + b * (1 - t)

    def assume(I):
        v = seg_state(I)
        br = chain_ref(kinds[1:], names[1:], sys, dm(v, sys))
        probs = [re_(M) if kinds[-1] == "povm" else re_(refs.tr(M)) for _, M in br]
        return ge_all(probs, PMIN)

    def run(I):
        from quara.objects.operators import compose_qoperations as comp
        c = qenv.csys(sys)
        v = seg_state(I)
        st = mk_state(c, v)
        objs = [st]
        for kind, name in zip(kinds[1:], names[1:]):
            objs.append({"gate": objlib.gates(sys), "mprocess": objlib.mprocesses(sys)}[kind][name] if kind != "povm" else tomo_lib.povms(sys)[name])
        args = list(reversed(objs))          # compose order: last operation first
        br = chain_ref(kinds[1:], names[1:], sys, dm(v, sys))
        probs_ref = [re_(M) if kinds[-1] == "povm" else re_(refs.tr(M)) for _, M in br]
        out = []
        n_ok = 0
        for tree in bracketings(args):
            try:
                res = eval_tree(tree, comp)
            except TypeError:
                continue            # not type-valid (e.g. State on the left)
            n_ok += 1
            if type(res).__name__ == "State":
                M = [mm for _, mm in br][0]
                out.append(Eq(f"bracketing {n_ok}: final state", res.vec, vec_of_dm(M, sys), 1e-9))
                continue
            ps, shape, sts = ens_signature(res)
            out.append(Eq(f"bracketing {n_ok}: statistics == reference in time-ordered row-major layout", np.array(ps, dtype=object),
                          np.array(probs_ref, dtype=object), 1e-9))
            size = 1
            for s_ in shape:
                size *= s_
            out.append(Holds(f"bracketing {n_ok}: shape size", size == len(probs_ref)))
        out.append(Holds("at least two bracketings evaluated", n_ok >= (2 if len(args) > 2 else 1)))
        return out
    n_meas = sum(1 for k in kinds if k == "mprocess") + (1 if kinds[-1] == "povm" else 0)
    if one_param:
        return FnOb([("t", "real", 0.0, 1.0)], run, assume=assume, eager_ite=True, exact_branching=True, branch_timeout_ms=5000,
                    max_paths=60, expect_nonlinear=True, explore_budget=200, exact_timeout_ms=30000)
    return FnOb(state_inputs(sys), run, assume=assume, eager_ite=True, max_paths=200, expect_nonlinear=True, explore_budget=300)


def ob_generate_mprocess2(sys, pidx):
    """generate_mprocess(mode 2) from a POVM and post-selected states: induced POVM == the POVM; statistics on a symbolic state"""
    mats = tomo_lib.povm_mats(sys)[pidx]

    def assume(I):
        v = symbolic_state(I, sys)
        return ge_all(born_ref(mats, dm(v, sys)), PMIN)

    def run(I):
        from quara.objects.operators import compose_qoperations as comp
        c = qenv.csys(sys)
        pv = tomo_lib.povms(sys)[pidx]
        posts = tomo_lib.states(sys)[:len(mats)] if len(tomo_lib.states(sys)) >= len(mats) else None
        mp = pv.generate_mprocess(2, posts)
        back = mp.to_povm()
        out = [Eq(f"to_povm()[{k}] == povm[{k}]", back.vecs[k], pv.vecs[k], 1e-9) for k in range(len(mats))]
        v = symbolic_state(I, sys)
        ens = comp(mp, mk_state(c, v))
        ref = [re_(p) for p in born_ref(mats, dm(v, sys))]
        out.append(Eq("process probabilities == Born probabilities of the POVM", ens.prob_dist.ps, np.array(ref, dtype=object), 1e-9))
        for k in range(len(mats)):
            num, den = unnorm(ens.state(k).vec, ref[k])
            out.append(Eq(f"post state {k} == post-selected state", np.array(num, dtype=object),
                          np.array([Sym.of(den) * x if isinstance(den, Sym) else den * x for x in posts[k].vec], dtype=object), 1e-9))
        return out
    return FnOb(state_inputs(sys), run, assume=assume, eager_ite=True, max_paths=60, expect_nonlinear=True)


def ob_generate_mprocess_spectral(sys, mode, vname):
    """generate_mprocess(mode 0 / 1) from a 2-outcome POVM {E, I-E} with E = V diag(w) V† (0 < w < 1):
    mode 0: K = sqrt(E); mode 1: HS = sum_i w_i P_i (x) conj(P_i).  Claims: induced POVM == the POVM, HS == Kraus reference"""
    from symq import stubs
    d = DIMS[sys]
    V = dict(refs.unitary_library(d))[vname]
    B = basis_of(sys)

    def run(I):
        import quara.objects.povm as PV
        c = qenv.csys(sys)
        w = [I[f"w{i}"] for i in range(d)]
        w2 = [1.0 - x for x in reversed(w)]
        V2 = V[:, ::-1].copy()
        E = stubs.spectral(w, V, "E0")
        F = stubs.spectral(w2, V2, "E1")           # I - E in the same eigenbasis, eigenvalues ascending
        vecs = [refs.ref_vec(E, B).real, refs.ref_vec(F, B).real]
        pv = mk_povm(c, vecs)
        if mode == 0:
            # sqrtm stub: principal square root through the registered decomposition
            def sqrtm_stub(M):
                if nd.is_concrete(M):
                    import scipy.linalg
                    return scipy.linalg.sqrtm(nd.to_concrete(M))
                ww, VV = stubs.eigh(M)
                return stubs.spectral([Sym.of(x).sqrt() for x in ww], VV, "sqrt")
            old = PV.sqrtm
            PV.sqrtm = sqrtm_stub
            try:
                mp = pv.generate_mprocess(0)
            finally:
                PV.sqrtm = old
            kraus = [[stubs.spectral([Sym.of(x).sqrt() for x in w], V, "k0")], [stubs.spectral([Sym.of(x).sqrt() for x in w2], V2, "k1")]]
        else:
            mp = pv.generate_mprocess(1)
            kraus = []
            for ww, VV in ((w, V), (w2, V2)):
                ks = []
                for i in range(d):
                    P = np.outer(VV[:, i], VV[:, i].conj())
                    ks.append(P.astype(object) * Sym.of(ww[i]).sqrt())
                kraus.append(ks)
        out = []
        back = mp.to_povm()
        for k in range(2):
            out.append(Eq(f"to_povm()[{k}] == povm[{k}]", back.vecs[k], vecs[k], 1e-7))
            out.append(Eq(f"HS[{k}] == sum_K Tr(B_a† K B_b K†)", mp.hss[k], refs.ref_hs_from_kraus(kraus[k], B).real, 1e-7))
        return out

    def assume(I):
        w = [I[f"w{i}"] for i in range(d)]
        return stubs.gaps(w, 1e-3)
    return FnOb([(f"w{i}", "real", 0.01, 0.99) for i in range(d)], run, assume=assume, max_paths=60, expect_nonlinear=True,
                stubs=["np.linalg.eigh: spectral parametrisation, frame " + vname] + (["scipy.linalg.sqrtm: V diag(sqrt w) V† of the registered decomposition"] if mode == 0 else []),
                outside=["degenerate spectra", "frames outside the library"])


def ob_generate_mprocess_degenerate(sys, vname):
    """generate_mprocess(mode 1) for a POVM element with a REPEATED eigenvalue: E = V diag(a,..,a,b) V† (the same symbol a on the first
    d-1 eigenvectors): the back-action is the projector onto the whole eigenspace, HS = a P_a (x) conj(P_a) + b P_b (x) conj(P_b) with
    P_a = sum of the eigenspace's projectors -- coherences inside the eigenspace survive"""
    from symq import stubs
    d = DIMS[sys]
    V = dict(refs.unitary_library(d))[vname]
    B = basis_of(sys)

    def run(I):
        c = qenv.csys(sys)
        a, b = I["a"], I["b"]
        w = [a] * (d - 1) + [b]
        w2 = [1.0 - b] + [1.0 - a] * (d - 1)
        V2 = V[:, ::-1].copy()
        E = stubs.spectral(w, V, "E0")
        F = stubs.spectral(w2, V2, "E1")
        vecs = [refs.ref_vec(E, B).real, refs.ref_vec(F, B).real]
        pv = mk_povm(c, vecs)
        mp = pv.generate_mprocess(1)
        Pa = sum(np.outer(V[:, i], V[:, i].conj()) for i in range(d - 1))
        Pb = np.outer(V[:, d - 1], V[:, d - 1].conj())
        kraus = [[Pa.astype(object) * Sym.of(a).sqrt(), Pb.astype(object) * Sym.of(b).sqrt()],
                 [Pb.astype(object) * Sym.of(1.0 - b).sqrt(), Pa.astype(object) * Sym.of(1.0 - a).sqrt()]]
        out = []
        back = mp.to_povm()
        for k in range(2):
            out.append(Eq(f"to_povm()[{k}] == povm[{k}]", back.vecs[k], vecs[k], 1e-7))
            out.append(Eq(f"HS[{k}] == eigenvalue-weighted eigenspace projectors", mp.hss[k], refs.ref_hs_from_kraus(kraus[k], B).real, 1e-7))
        return out

    def assume(I):
        return [SBool.of(I["a"] + 1e-3 <= I["b"])]
    return FnOb([("a", "real", 0.01, 0.99), ("b", "real", 0.01, 0.99)], run, assume=assume, max_paths=60, expect_nonlinear=True,
                stubs=["np.linalg.eigh: spectral parametrisation with a repeated eigenvalue, frame " + vname])


CHAINS_Q1 = [
    (["state", "gate", "povm"], [None, "ampdamp", 3]),
    (["state", "gate", "gate", "povm"], [None, "S", "ampdamp", 4]),
    (["state", "mprocess", "gate", "povm"], [None, "reset2", "mix", 0]),
    (["state", "mprocess", "mprocess"], [None, "z_then_U", "trine3"]),
    (["state", "gate", "mprocess"], [None, "ampdamp", "trine3"]),
    (["state", "mprocess", "gate"], [None, "z_then_U", "S"]),
]
CHAINS_LONG = [
    (["state", "mprocess", "povm"], [None, "trine3", 1]),
    (["state", "gate", "mprocess", "povm"], [None, "rx", "z_then_U", 3]),
    (["state", "mprocess", "mprocess", "povm"], [None, "z_then_U", "trine3", 0]),
    (["state", "gate", "mprocess", "gate", "povm"], [None, "S", "trine3", "ampdamp", 0]),
    (["state", "mprocess", "gate", "mprocess", "povm"], [None, "z_then_U", "rx", "reset2", 3]),
]


def obligations(tier):
    out = []
    out += specs("C06.gate_state", [{"sys": "Q1", "gname": g} for g in ["ampdamp", "S", "mix"]] + tiers(tier, [{"sys": "T1", "gname": "mix"}], [{"sys": "T1", "gname": "mix"}, {"sys": "Q2", "gname": "mix"}]), ob_gate_state)
    out += specs("C06.gate_gate", [{"sys": "Q1", "g2": g, "g1sym": f} for g in ["ampdamp", "S"] for f in (True, False)] +
                 tiers(tier, [], [{"sys": "T1", "g2": "mix", "g1sym": True}]), ob_gate_gate, 2)
    out += specs("C06.born", [{"sys": "Q1", "pidx": k} for k in tiers(tier, [1, 3, 4], [0, 1, 2, 3, 4, 5])] + [{"sys": "T1", "pidx": 9}] + tiers(tier, [], [{"sys": "Q2", "pidx": 4}]), ob_born, 2)
    out += specs("C06.povm_gate", [{"sys": "Q1", "pidx": 3, "gname": "ampdamp"}, {"sys": "Q1", "pidx": 4, "gname": "S"}, {"sys": "T1", "pidx": 9, "gname": "mix"}], ob_povm_gate)
    out += specs("C06.mprocess_state", [{"sys": "Q1", "mname": m} for m in ["z_then_U", "trine3", "reset2"]] + tiers(tier, [], [{"sys": "T1", "mname": "proj_then_U"}]), ob_mprocess_state, 3)
    out += specs("C06.mprocess_zero", [{"sys": "Q1"}], ob_mprocess_zero)
    out += specs("C06.mm_zero", [{"sys": "Q1", "m1": "zproj", "m2": "zproj"}, {"sys": "Q1", "m1": "zproj", "m2": "z_then_U"}], ob_mm_zero, 4)
    out += specs("C06.povm_on_ensemble_zero", [{"sys": "Q1", "which": w} for w in (0, 1)], ob_povm_on_ensemble_zero, 2)
    out += specs("C06.mprocess_mprocess", [{"sys": "Q1", "m2": "trine3", "m1": "z_then_U"}] + tiers(tier, [], [{"sys": "Q1", "m2": "z_then_U", "m1": "trine3"}]), ob_mm, 4)
    # CHAINS_LONG[1:] (two measurements followed by a final POVM, 4-5 operations) exhaust a 200 s exploration budget on the divisions
    # of the state ensemble: they are outside the claim (DESIGN.md 7.6)
    out += specs("C06.generate_mprocess.degenerate", [{"sys": "Q1", "vname": "cplx"}, {"sys": "T1", "vname": "cplx+1"}], ob_generate_mprocess_degenerate, 3)
    out += specs("C06.shape_kept", [{"sys": "Q1", "gname": "ampdamp", "mname": "trine3", "shape": sh} for sh in ([1, 3], [3, 1])] +
                 [{"sys": "Q1", "gname": "S", "mname": "z_then_U", "shape": [1, 2]}], ob_shape_kept, 1)
    for kinds, names in CHAINS_Q1 + tiers(tier, [], CHAINS_LONG[:1]):
        n_meas = sum(1 for k in kinds if k == "mprocess") + (1 if kinds[-1] == "povm" else 0)
        out += specs("C06.bracket", [{"sys": "Q1", "kinds": kinds, "names": names, "one_param": n_meas >= 2}], ob_bracket, 3 * len(kinds))
    out += specs("C06.generate_mprocess.mode2", [{"sys": "Q1", "pidx": k} for k in (1, 3)], ob_generate_mprocess2, 2)
    out += specs("C06.generate_mprocess.spectral", [{"sys": "Q1", "mode": md, "vname": v} for md in (0, 1) for v in tiers(tier, ["cplx"], ["rot", "cplx"])] +
                 tiers(tier, [], [{"sys": "T1", "mode": 1, "vname": "perm.rot"}]), ob_generate_mprocess_spectral, 3)
    return out


if __name__ == "__main__":
    sys.exit(main("C06", "c06"))
