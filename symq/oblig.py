"""symq.oblig -- obligations, solver verdicts, replay, translator validation, evidence, CLI.

An obligation = (real quara code run on symbolic inputs) + assumptions + claims.
Deciding step: z3 on  bounds ∧ assumptions ∧ path-condition ∧ definitions ∧ ¬claims  per path;
`unsat` = holds for every input value within the stated bounds on that path.
Candidates (`sat`) are replayed on plain numpy before anything is reported.
"""
from __future__ import annotations
import os, sys, json, time, hashlib, random, traceback, argparse, math, subprocess
from fractions import Fraction
import numpy as np
import z3
from . import core, nd, stubs
from .core import Sym, SBool, Poly, Env, s_and, s_or

VERIF = os.path.dirname(os.path.dirname(os.path.abspath(__file__)))
EXIT_OK, EXIT_VIOLATION, EXIT_INCONCLUSIVE = 0, 1, 2


# ----------------------------------------------------------------------------------------
# claims
# ----------------------------------------------------------------------------------------
class Eq:
    """all entries of lhs equal the entries of rhs within tol (real and imaginary parts)"""

    def __init__(self, label, lhs, rhs, tol=1e-8):
        self.label = label
        self.lhs = lhs
        self.rhs = rhs
        self.tol = tol

    def _pairs(self):
        a = np.asarray(nd.to_concrete(self.lhs) if not nd.has_sym(self.lhs) else self.lhs, dtype=object)
        b = np.asarray(nd.to_concrete(self.rhs) if not nd.has_sym(self.rhs) else self.rhs, dtype=object)
        if a.shape != b.shape:
            try:
                shp = np.broadcast_shapes(a.shape, b.shape)
            except ValueError:
                return None
            if shp != a.shape and shp != b.shape:
                return None
            if a.size != b.size and min(a.size, b.size) != 1:
                return None
            a = np.broadcast_to(a, shp)
            b = np.broadcast_to(b, shp)
        return list(zip(np.ndarray.reshape(a, -1), np.ndarray.reshape(b, -1)))

    def diffs(self):
        """list of real Polys that must all be within tol of 0; None = shape mismatch"""
        pr = self._pairs()
        if pr is None:
            return None
        out = []
        for x, y in pr:
            d = Sym.of(x) - Sym.of(y)
            if d.re.t:
                out.append(d.re)
            if d.im.t:
                out.append(d.im)
        return out

    def formula(self, thr=None):
        thr = self.tol if thr is None else thr
        ds = self.diffs()
        if ds is None:
            return core.FALSE
        t = Poly.const(thr)
        parts = []
        for d in ds:
            if d.is_const():
                if abs(d.cval()) > core.frac(thr):
                    return core.FALSE
                continue
            b = core.poly_absbound(d)
            if b is not None and b <= core.frac(thr):
                continue            # |d| <= thr over the whole box by coefficient-wise interval arithmetic (rounding-size residues)
            parts.append(core._cmp0(d.sub(t), "le"))
            parts.append(core._cmp0(d.add(t), "ge"))
        return s_and(parts)

    def concrete_ok(self, slack=1.0):
        pr = self._pairs()
        if pr is None:
            return False, "shape mismatch %s vs %s" % (np.shape(self.lhs), np.shape(self.rhs))
        worst = 0.0
        for x, y in pr:
            d = abs(complex(x) - complex(y))
            if not (d == d):
                return False, "nan"
            worst = max(worst, d)
        return worst <= self.tol * slack, f"max |lhs-rhs| = {worst:.3e} (tol {self.tol:g})"

    def values(self):
        pr = self._pairs()
        return [x for x, _ in pr] if pr is not None else []


class Holds:
    """a boolean formula that must be true"""

    def __init__(self, label, formula):
        self.label = label
        self.f = formula

    def formula(self, thr=None):
        f = self.f
        if isinstance(f, np.ndarray):
            f = nd._all(f)
        return SBool.of(f)

    def concrete_ok(self, slack=1.0):
        f = self.f
        if isinstance(f, SBool):
            f = f.a if f.k == "const" else None
        if isinstance(f, np.ndarray):
            f = bool(np.all(f))
        return bool(f), f"formula is {f}"

    def values(self):
        return []


# ----------------------------------------------------------------------------------------
# obligation
# ----------------------------------------------------------------------------------------
class Ob:
    """
    name     e.g. 'C02.gate.choi.agree'
    cfg      JSON-able configuration (system shape, flags, outcome counts ...)
    inputs   list of (name, kind, lo, hi)   kind in 'real' | 'int'
    run(I)   executes the real code on I[name] (Sym or float) and returns a list of claims
    assume(I)  optional list of preconditions (SBool / bool)
    modules  quara modules whose `np` is rebound (default: all known)
    """
    name = "?"
    cfg: dict = {}
    inputs: list = []
    max_paths = 400
    # generous limits: a loaded machine can be an order of magnitude slower than the development sandbox; nothing below is
    # ever reported as success when a limit is hit
    explore_budget = 1500.0
    solver_timeout_ms = 300000
    exact_timeout_ms = 180000
    tv_points = 2
    expect_nonlinear = False
    stubs: list = []          # names of contract stubs this obligation relies on
    outside: list = []        # what lies outside the claim
    note = ""

    def assume(self, I):
        return []

    def run(self, I):
        raise NotImplementedError

    def setup(self):
        """concrete preparation (composite systems, testers); runs once per process"""

    # identification -----------------------------------------------------------------
    def sig(self):
        return json.dumps(self.cfg, sort_keys=True, default=str)

    def ident(self):
        return f"{self.name}[{self.sig()}]"


class ObSpec:
    def __init__(self, name, cfg, make, weight=1.0):
        self.name = name
        self.cfg = cfg
        self.make = make
        self.weight = weight


# ----------------------------------------------------------------------------------------
# running one obligation
# ----------------------------------------------------------------------------------------
def _sym_inputs(ob):
    I = {}
    for name, kind, lo, hi in ob.inputs:
        I[name] = core.sym_int(name, lo, hi) if kind == "int" else core.sym_real(name, lo, hi)
    return I


def _model_inputs(ob, model):
    vals = {}
    for name, kind, lo, hi in ob.inputs:
        a = core.REG.by_name[name]
        v = model.eval(a.z3v, model_completion=True)
        if kind == "int":
            vals[name] = int(v.as_long())
        else:
            if z3.is_algebraic_value(v):
                v = v.approx(30)
            vals[name] = Fraction(v.numerator_as_long(), v.denominator_as_long())
    return vals


def _values_inputs(ob, d):
    vals = {}
    for name, kind, lo, hi in ob.inputs:
        v = d.get(name)
        if v is None:
            v = Fraction(0) if lo is None else Fraction(lo)
        vals[name] = int(v) if kind == "int" else Fraction(v)
    return vals


def _concrete_inputs(vals):
    return {k: (int(v) if isinstance(v, int) else float(v)) for k, v in vals.items()}


def _random_point(ob, rng):
    sampler = getattr(ob, "tv_sampler", None)
    if sampler is not None:
        # obligation-specific sampler for translator validation (e.g. points of a probability simplex, which uniform sampling of the
        # coordinates practically never hits); values are rounded to multiples of 2^-20 so that the exact evaluation stays cheap
        return {k: (int(v) if isinstance(v, (int, np.integer)) else Fraction(round(float(v) * 1048576), 1048576)) for k, v in sampler(rng).items()}
    vals = {}
    for name, kind, lo, hi in ob.inputs:
        lo_ = -10 if lo is None else lo
        hi_ = 10 if hi is None else hi
        if kind == "int":
            vals[name] = rng.randint(int(max(lo_, -50)), int(min(hi_, 50)))
        else:
            # moderate magnitudes exercise every coefficient; keep a few digits so that exact
            # evaluation stays cheap
            span_lo = max(lo_, -3.0)
            span_hi = min(hi_, 3.0)
            if span_lo > span_hi:
                span_lo, span_hi = lo_, hi_
            vals[name] = Fraction(round(rng.uniform(span_lo, span_hi) * 4096), 4096)
            if vals[name] < lo_:
                vals[name] = Fraction(lo_)
            if vals[name] > hi_:
                vals[name] = Fraction(hi_)
    return vals


class ConcreteRun:
    def __init__(self, ob, vals):
        self.ob = ob
        self.vals = vals
        self.exc = None
        self.claims = None
        self.assume_ok = True
        I = _concrete_inputs(vals)
        stubs.reset()
        try:
            for a in ob.assume(I):
                if isinstance(a, SBool):
                    a = a.a if a.k == "const" else True
                if not bool(a):
                    self.assume_ok = False
            self.claims = ob.run(I)
        except (core.AssumptionFailed, core.Outside, core.Budget):
            self.assume_ok = False          # the point lies outside the obligation's stated bounds
        except Exception as e:
            self.exc = e
            self.tb = traceback.format_exc()


def _claims_neg(claims, thr=None):
    parts = []
    for c in claims:
        f = c.formula(thr) if isinstance(c, Eq) else c.formula()
        parts.append(~f)
    return s_or(parts)


class PathVerdict:
    def __init__(self):
        self.status = None     # holds | violation | inconclusive
        self.detail = ""
        self.queries = 0
        self.solver_s = 0.0
        self.replay = None
        self.label = None
        self.relaxed_only = False
        self.cross = {"agree": 0, "disagree": 0, "unknown": 0}


CROSS = {"on": None, "budget": 0}


def cross_enabled():
    """second-solver cross-check of `unsat` verdicts (cvc5 binary on the same SMT-LIB text): the first 3 (quick) / 20 (thorough)
    verdicts of each obligation; VERIF_CROSS=1: all of them, VERIF_CROSS=0: none"""
    if CROSS["on"] is None:
        from shutil import which
        v = os.environ.get("VERIF_CROSS")
        CROSS["on"] = bool(which("cvc5")) and v != "0"
        CROSS["all"] = (v == "1")
    if not CROSS["on"]:
        return False
    if CROSS["all"]:
        return True
    return CROSS["budget"] > 0


def cross_check_unsat(solver, pv, tlimit_s=10):
    """z3 said unsat: ask cvc5.  `sat` from cvc5 is a disagreement (the verdict is then not trusted); unknown / timeout / error is
    counted and changes nothing"""
    if not cross_enabled():
        return True
    CROSS["budget"] -= 1
    import tempfile
    txt = "(set-logic ALL)\n" + solver.to_smt2()
    fd, path = tempfile.mkstemp(suffix=".smt2", prefix="symq_x_")
    os.write(fd, txt.encode())
    os.close(fd)
    try:
        pr = subprocess.run(["cvc5", f"--tlimit={int(tlimit_s * 1000)}", path], capture_output=True, text=True, timeout=tlimit_s + 10)
        out = (pr.stdout or "").strip().split("\n")[0].strip()
        if os.environ.get("SYMQ_DEBUG") and out not in ("sat", "unsat"):
            print("cross_check:", repr((pr.stdout or "")[:300]), repr((pr.stderr or "")[:300]), file=sys.stderr)
    except subprocess.TimeoutExpired:
        out = "unknown"
    finally:
        try:
            os.unlink(path)
        except OSError:
            pass
    if out == "unsat":
        pv.cross["agree"] += 1
        return True
    if out == "sat":
        pv.cross["disagree"] += 1
        return False
    pv.cross["unknown"] += 1
    return True


def _solver(timeout_ms):
    s = z3.Solver()
    s.set("timeout", int(timeout_ms))
    return s


def _check(s, pv, limit_s=None):
    t = time.time()
    try:
        r = str(s.check())
    except z3.Z3Exception:
        r = "unknown"
    pv.queries += 1
    pv.solver_s += time.time() - t
    return r


def _sexpr_val(tok):
    """value of a z3 get-value s-expression (numerals, (- x), (/ a b), decimals with trailing ?)"""
    tok = tok.strip()
    if tok.startswith("("):
        inner = tok[1:-1].strip()
        op, rest = inner.split(None, 1)
        args, depth, cur = [], 0, ""
        for ch in rest:
            if ch == "(":
                depth += 1
            if ch == ")":
                depth -= 1
            if ch.isspace() and depth == 0:
                if cur:
                    args.append(cur)
                    cur = ""
            else:
                cur += ch
        if cur:
            args.append(cur)
        vals = [_sexpr_val(a) for a in args]
        if op == "-":
            return -vals[0] if len(vals) == 1 else vals[0] - vals[1]
        if op == "/":
            return vals[0] / vals[1]
        if op == "+":
            return sum(vals)
        if op == "*":
            r = Fraction(1)
            for v in vals:
                r *= v
            return r
        raise ValueError("unsupported value " + tok)
    return Fraction(tok.rstrip("?"))


def external_check(constraints, names, timeout_s):
    """decide a (non-linear) query with the z3 command-line binary under a HARD time limit (z3's in-process timeout is not
    always honoured inside nlsat).  Returns (verdict, values or None)"""
    import tempfile
    z3bin = None
    for cand in ("z3-new", "z3"):
        from shutil import which
        if which(cand):
            z3bin = which(cand)
            break
    if z3bin is None:
        return "unknown", None
    s = z3.Solver()
    s.add(constraints)
    txt = "(set-option :pp.decimal true)\n(set-option :pp.decimal_precision 25)\n" + s.to_smt2()
    if names:
        txt += "\n(get-value (" + " ".join("|%s|" % n for n in names) + "))\n"
    fd, path = tempfile.mkstemp(suffix=".smt2", prefix="symq_")
    os.write(fd, txt.encode())
    os.close(fd)
    try:
        p = subprocess.run([z3bin, f"-T:{int(max(1, timeout_s))}", path], capture_output=True, text=True, timeout=timeout_s + 10)
        out = p.stdout
    except subprocess.TimeoutExpired:
        return "unknown", None
    finally:
        try:
            os.unlink(path)
        except OSError:
            pass
    lines = out.strip().split("\n")
    verdict = lines[0].strip() if lines else "unknown"
    if os.environ.get("SYMQ_DEBUG"):
        print("external_check:", verdict, out[:300].replace("\n", " | "), file=sys.stderr)
    if verdict not in ("sat", "unsat"):
        return "unknown", None          # includes any (error ...) before the verdict
    if verdict == "unsat" or not names:
        return verdict, None
    body = "\n".join(lines[1:])
    vals = {}
    import re
    for m in re.finditer(r"\(\|?([^\s|()]+)\|?\s+((?:\([^()]*(?:\([^()]*\)[^()]*)*\))|[^\s()]+)\)", body):
        try:
            vals[m.group(1)] = _sexpr_val(m.group(2))
        except Exception:
            pass
    return "sat", vals


def _base_constraints(ob, path, assume_f, no_uf=False):
    """no_uf: leave out the defining equations of uninterpreted-function applications (their results stay free reals): sound for
    `unsat`, and keeps the non-linear back end out of the UF theory"""
    cs = list(core.bounds_constraints())
    cs += [a.z3() for a in assume_f]
    cs += [c.z3() for c in path.pc]
    ufd = getattr(path, "uf_defs", set()) if no_uf else set()
    cs += [d[0] for i, d in enumerate(path.defs) if d[0] is not None and i not in ufd]
    return cs


def _exact_constraints(path, monos):
    cs = [d[1] for d in path.defs if d[1] is not None]
    cs += [core.mono_def(m) for m in monos]
    return cs


def decide_path(ob, path, claims, assume_f, replay_fn, dump=None):
    """claims: list of claim objects (symbolic) for this path"""
    pv = PathVerdict()
    core.CTX.monos = set(path.monos)
    neg = _claims_neg(claims)
    if neg.k == "const" and not neg.a:
        pv.status = "holds"
        pv.detail = "claims are syntactically identical"
        return pv
    negz = neg.z3()
    monos = set(core.CTX.monos)
    base = _base_constraints(ob, path, assume_f) + core.mono_facts(monos)
    # harness lemmas: prove each one exactly from the path's constraints, then use it
    if getattr(path, "lemmas", None):
        names_ = [n for n, _, _, _ in ob.inputs]
        proved = []
        # all lemmas at once first (one solver start-up); individually only if that is not conclusive
        core.CTX.monos = set(monos)
        allz = [lem.z3() for lem in path.lemmas]
        mset_all = set(core.CTX.monos)
        t_ = time.time()
        rl, _ = external_check(base + _exact_constraints(path, mset_all) + [z3.Not(z3.And(allz))], [], min(120.0, ob.exact_timeout_ms / 1000.0))
        pv.queries += 1
        pv.solver_s += time.time() - t_
        todo = [] if rl == "unsat" else list(path.lemmas)
        if rl == "unsat":
            proved = allz
        for lem in todo:
            core.CTX.monos = set(monos)
            lz = lem.z3()
            mset = set(core.CTX.monos)
            t_ = time.time()
            rl, _ = external_check(base + proved + _exact_constraints(path, mset) + [z3.Not(lz)], [], min(60.0, ob.exact_timeout_ms / 1000.0))
            pv.queries += 1
            pv.solver_s += time.time() - t_
            if rl != "unsat":
                pv.status = "inconclusive"
                pv.detail = f"harness lemma could not be proved ({rl}): {lem}"
                return pv
            proved.append(lz)
        base = base + proved
    s = _solver(ob.solver_timeout_ms)
    s.add(base)
    s.add(negz)
    if dump is not None and dump.get("smt2") is None:
        try:
            dump["smt2"] = s.to_smt2()[:20000]
        except Exception:
            pass
    r = _check(s, pv, ob.solver_timeout_ms / 1000.0 + 5)
    if r == "unsat":
        # vacuity guard: the path's own constraints must be satisfiable, otherwise `unsat` proves nothing
        sv = _solver(min(ob.solver_timeout_ms, 60000))
        sv.add(base)
        rv = _check(sv, pv)
        if rv == "unsat":
            pv.status = "inconclusive"
            pv.detail = "vacuous path: bounds, assumptions, path condition and definitions are jointly unsatisfiable"
            return pv
        if not cross_check_unsat(s, pv):
            pv.status = "inconclusive"
            pv.detail = "solver disagreement: z3 unsat, cvc5 sat on the same SMT-LIB text"
            return pv
        pv.status = "holds"
        pv.relaxed_only = bool(monos)
        return pv
    if r == "unknown" and len(claims) >= 1:
        # the conjunction was too big for one query: decide the claims one by one (Eq claims entry by entry)
        all_unsat = True
        for c in claims:
            parts = []
            if isinstance(c, Eq):
                ds = c.diffs()
                if ds is None:
                    all_unsat = False
                    break
                t = Poly.const(c.tol)
                for dp in ds:
                    if dp.is_const():
                        if abs(dp.cval()) > core.frac(c.tol):
                            all_unsat = False
                        continue
                    parts.append(~(core._cmp0(dp.sub(t), "le") & core._cmp0(dp.add(t), "ge")))
            else:
                parts.append(~c.formula())
            for part in parts:
                if part.k == "const":
                    if part.a:
                        all_unsat = False
                    continue
                core.CTX.monos = set(path.monos)
                pz = part.z3()
                sp = _solver(ob.solver_timeout_ms)
                sp.add(_base_constraints(ob, path, assume_f) + core.mono_facts(set(core.CTX.monos)))
                sp.add(pz)
                rp_ = _check(sp, pv)
                if rp_ != "unsat":
                    if os.environ.get("SYMQ_DEBUG"):
                        print("per-claim fallback:", getattr(c, "label", c), "->", rp_, str(part)[:300], file=sys.stderr)
                    all_unsat = False
                    break
            if not all_unsat:
                break
        if all_unsat:
            pv.status = "holds"
            pv.relaxed_only = bool(monos)
            return pv
    candidates = []
    exact_needed = bool(monos) or any(d[1] is not None for d in path.defs)
    if r == "sat" and os.environ.get("SYMQ_DEBUG"):
        try:
            m_ = s.model()
            for c in claims:
                nz_ = _claims_neg([c])
                if nz_.k == "const":
                    continue
                ev_ = m_.eval(nz_.z3(), model_completion=True)
                if not z3.is_false(ev_):
                    print("relaxed model falsifies claim:", getattr(c, "label", c), str(ev_)[:200], str(nz_)[:300], file=sys.stderr)
                    if isinstance(c, Eq):
                        for d_ in (c.diffs() or []):
                            print("   diff", str(d_)[:400], "absbound", core.poly_absbound(d_), file=sys.stderr)
        except Exception as e_:
            print("debug eval failed", e_, file=sys.stderr)
    if r == "sat":
        candidates.append(("relaxed" if exact_needed else "exact", s.model()))
        if exact_needed:
            # cheap first: a model of the relaxation is very often a genuine counterexample; replay decides
            try:
                vals = _model_inputs(ob, s.model())
                ok, label, detail = replay_fn(vals)
                if ok:
                    pv.status, pv.replay, pv.label = "violation", vals, label
                    pv.detail = f"relaxed model reproduced: {detail}"
                    return pv
            except Exception:
                pass
            # a second relaxed attempt pulled inside the assumptions by a margin
            for margin in (1e-3, 1e-6):
                s4 = _solver(min(ob.solver_timeout_ms, 20000))
                s4.add(core.bounds_constraints(margin))
                s4.add([a.tighten(margin).z3() for a in assume_f])
                s4.add([c.z3() for c in path.pc])
                s4.add([d[0] for d in path.defs if d[0] is not None])
                s4.add(negz)
                if _check(s4, pv) == "sat":
                    try:
                        vals = _model_inputs(ob, s4.model())
                        ok, label, detail = replay_fn(vals)
                        if ok:
                            pv.status, pv.replay, pv.label = "violation", vals, label
                            pv.detail = f"relaxed model (margin {margin}) reproduced: {detail}"
                            return pv
                    except Exception:
                        pass
                    break
    if exact_needed:
        t_ = time.time()
        names = [n for n, _, _, _ in ob.inputs]
        base_x = base
        if getattr(path, "uf_defs", None):
            base_x = _base_constraints(ob, path, assume_f, no_uf=True) + core.mono_facts(monos)
        r2, vals2 = external_check(base_x + _exact_constraints(path, monos) + [negz], names, ob.exact_timeout_ms / 1000.0)
        if r2 == "sat" and base_x is not base:
            r2, vals2 = "unknown", None         # a model of the UF-free abstraction need not respect congruence
        pv.queries += 1
        pv.solver_s += time.time() - t_
        if r2 == "unsat":
            pv.status = "holds"
            return pv
        if r2 == "sat" and vals2 is not None:
            candidates.insert(0, ("exact", vals2))
        r = r2 if r2 != "unknown" else r
    # robust counterexample: prefer a model inside the assumptions by a margin (survives float replay) that
    # violates an Eq claim by a wide margin
    if candidates:
        has_eq = any(isinstance(c, Eq) for c in claims)
        found = False
        # (margin for bounds / assumptions, margin for the path condition): a model that satisfies the branch conditions only barely
        # follows another path when replayed in floating point, so models strictly inside the path are tried first
        for margin, pcm in ((1e-3, 1e-6), (1e-6, 1e-9), (1e-3, 0.0), (1e-6, 0.0), (1e-9, 0.0)):
            for thr in ((1e-2, 1e-5, None) if has_eq else (None,)):
                core.CTX.monos = set(path.monos)
                negw = _claims_neg(claims, thr)
                if negw.k == "const" and not negw.a:
                    continue
                if pcm:
                    negw = negw.tighten(pcm)     # the claim is to be violated with a margin, too (thresholds inside the claim itself)
                    if negw.k == "const" and not negw.a:
                        continue
                negwz = negw.z3()       # registers the claim's monomials before the exact constraints are collected
                s3 = _solver(min(ob.solver_timeout_ms, 20000))
                s3.add(core.bounds_constraints(margin))
                s3.add([a.tighten(margin).z3() for a in assume_f])
                s3.add([(c.tighten(pcm) if pcm else c).z3() for c in path.pc])
                s3.add([d[0] for d in path.defs if d[0] is not None])
                tag = f"robust(margin={margin},path margin={pcm},thr={thr})"
                if exact_needed:
                    t_ = time.time()
                    r3, vals3 = external_check(list(s3.assertions()) + _exact_constraints(path, set(core.CTX.monos)) + [negwz],
                                               [n for n, _, _, _ in ob.inputs], 15.0)
                    pv.queries += 1
                    pv.solver_s += time.time() - t_
                    if r3 == "sat" and vals3 is not None:
                        candidates.insert(0, (tag, vals3))
                        found = True
                        break
                    if r3 == "unknown":
                        break
                    continue
                s3.add(negwz)
                if _check(s3, pv, 25.0) == "sat":
                    candidates.insert(0, (tag, s3.model()))
                    found = True
                    break
            if found:
                break
    for kind, model in candidates:
        try:
            vals = _values_inputs(ob, model) if isinstance(model, dict) else _model_inputs(ob, model)
        except Exception as e:
            pv.detail += f"[model extraction failed: {e}] "
            continue
        ok, label, detail = replay_fn(vals)
        if ok:
            pv.status = "violation"
            pv.replay = vals
            pv.label = label
            pv.detail = f"{kind} model reproduced: {detail}"
            return pv
        pv.detail += f"[{kind} model did not reproduce: {detail}] "
    pv.status = "inconclusive"
    pv.detail += f"solver said {r}"
    return pv


def replay_concrete(ob, vals, path_kind="ok", exc_type=None):
    """run the real code on plain numpy at the model point.  Returns (violated, label, detail).
    ob.replay_variants (optional): list of input overrides tried in turn -- used to choose among the concrete stand-ins of
    uninterpreted stubs (a counterexample of a stub-level obligation is a point TOGETHER WITH an interpretation of the stubs); the
    override that reproduces is written into vals, so the replay file carries it."""
    last = (False, None, "no replay variant")
    for var in (getattr(ob, "replay_variants", None) or [{}]):
        v2 = dict(vals)
        v2.update(var)
        last = _replay_concrete_one(ob, v2, path_kind, exc_type)
        if last[0]:
            vals.update(var)
            return last
    return last


def _raised_in_harness(exc):
    """True when the innermost frame of the traceback that belongs to either the library or the check scripts is a check script"""
    from . import qenv
    lib = os.path.join(os.path.realpath(qenv.REPO), "quara") + os.sep
    chk = os.path.join(os.path.dirname(os.path.dirname(os.path.abspath(__file__))), "checks") + os.sep
    last = None
    tb = exc.__traceback__
    while tb is not None:
        fn = os.path.realpath(tb.tb_frame.f_code.co_filename)
        if fn.startswith(lib):
            last = "lib"
        elif fn.startswith(chk):
            last = "harness"
        tb = tb.tb_next
    return last == "harness"


def _replay_concrete_one(ob, vals, path_kind="ok", exc_type=None):
    cr = ConcreteRun(ob, vals)
    if not cr.assume_ok:
        return False, None, "assumptions do not hold at the model point (rounding)"
    if cr.exc is not None:
        if _raised_in_harness(cr.exc):
            # e.g. the harness reaches for an attribute the library no longer has: a fault of the check, not of the code under test
            return False, None, f"harness error (raised in /verif/checks, not in the library): {type(cr.exc).__name__}: {str(cr.exc)[:200]}"
        label = "exception:" + type(cr.exc).__name__
        return True, label, f"real code raised {type(cr.exc).__name__}: {str(cr.exc)[:200]}"
    if exc_type is not None:
        return False, None, f"symbolic run raised {exc_type} but the concrete run did not"
    for c in cr.claims:
        ok, d = c.concrete_ok(slack=10.0) if isinstance(c, Eq) else c.concrete_ok()
        if not ok:
            return True, c.label, f"claim '{c.label}' fails concretely: {d}"
    return False, None, "all claims hold concretely at the model point"


def _find_path(paths, env):
    for p in paths:
        try:
            if all(c.eval(env) for c in p.pc):
                return p
        except Exception:
            continue
    return None


CONCRETE_FAILS = []


def translator_validation(ob, paths, rng, assume_syms):
    """concrete run vs symbolic result evaluated at the same point"""
    done = 0
    problems = []
    tries = 0
    CONCRETE_FAILS.clear()
    while done < ob.tv_points and tries < ob.tv_points * 6:
        tries += 1
        vals = _random_point(ob, rng)
        cr = ConcreteRun(ob, vals)
        if not cr.assume_ok:
            continue
        # the validation points double as concrete tests of the REAL code: a claim that fails here is a genuine counterexample (found by
        # sampling, not by the solver -- reported as such), typically where the symbolic model and the real code diverge
        if cr.exc is None and cr.claims is not None:
            for c_c in cr.claims:
                okc, dc = c_c.concrete_ok(slack=10.0) if isinstance(c_c, Eq) else c_c.concrete_ok()
                if not okc:
                    CONCRETE_FAILS.append((dict(vals), c_c.label, f"claim '{c_c.label}' fails concretely: {dc}"))
                    break
        env = Env(vals)
        p = _find_path(paths, env)
        if p is None:
            if tries >= ob.tv_points * 5:
                problems.append(f"no symbolic path matches concrete point {_fmt_vals(vals)}")
            continue
        if cr.exc is not None:
            if p.kind == "exc" and type(p.value).__name__ == type(cr.exc).__name__:
                done += 1
                continue
            problems.append(f"concrete run raised {type(cr.exc).__name__}: {str(cr.exc)[:120]} but symbolic path is {p.kind}")
            done += 1
            continue
        if p.kind != "ok":
            problems.append(f"symbolic path raised {type(p.value).__name__}: {str(p.value)[:120]}; concrete run did not")
            done += 1
            continue
        sc = p.value
        if len(sc) != len(cr.claims):
            problems.append("number of claims differs between symbolic and concrete run")
            done += 1
            continue
        for s_c, c_c in zip(sc, cr.claims):
            if isinstance(s_c, Eq):
                sv = s_c.values()
                cv = c_c.values()
                if len(sv) != len(cv):
                    problems.append(f"claim {s_c.label}: size differs")
                    continue
                for a, b in zip(sv, cv):
                    av = complex(Sym.of(a).eval(env))
                    bv = complex(b)
                    if abs(av - bv) > 1e-7 * (1 + abs(bv)):
                        problems.append(f"claim {s_c.label}: symbolic {av} vs concrete {bv} at {_fmt_vals(vals)}")
                        break
            else:
                f = s_c.formula()
                okc, _ = c_c.concrete_ok()
                try:
                    oks = f.eval(env)
                except Exception as e:
                    problems.append(f"claim {s_c.label}: cannot evaluate formula: {e}")
                    continue
                if bool(oks) != bool(okc):
                    problems.append(f"claim {s_c.label}: symbolic verdict {oks} vs concrete {okc} at {_fmt_vals(vals)}")
        done += 1
    return done, problems


def _fmt_vals(vals, n=6):
    items = list(vals.items())[:n]
    return "{" + ", ".join(f"{k}={float(v):.6g}" for k, v in items) + (", ..." if len(vals) > n else "") + "}"


def run_obligation(ob, seed=0, tier="quick", collect_functions=True):
    """returns a JSON-able result dict"""
    t0 = time.time()
    os.environ["VERIF_TIER_RUNNING"] = tier
    CROSS["on"] = None
    CROSS["budget"] = 20 if tier == "thorough" else 3
    core.reset_registry()
    core.CTX.__init__()
    core.CTX.eager_ite = bool(getattr(ob, "eager_ite", False))
    core.CTX.exact_branching = bool(getattr(ob, "exact_branching", False))
    core.CTX.branch_timeout_ms = int(getattr(ob, "branch_timeout_ms", 10000))
    rng = random.Random(f"{seed}:{ob.ident()}")
    res = {"name": ob.name, "cfg": ob.cfg, "ident": ob.ident(), "status": None, "paths": 0, "queries": 0,
           "solver_s": 0.0, "symexec_s": 0.0, "violations": [], "inconclusive": [], "functions": [],
           "stubs": list(ob.stubs), "outside": list(ob.outside), "n_inputs": len(ob.inputs), "tv_points": 0,
           "relaxed_paths": 0, "branch_queries": 0, "smt2_sample": None, "bounds": _bounds_summary(ob)}
    try:
        ob.setup()
        I = _sym_inputs(ob)
        with nd.symbolic_mode():
            assume_f = [SBool.of(a) for a in ob.assume(I)]

        def fn():
            stubs.reset()
            with nd.symbolic_mode():
                return ob.run(I)
        ts = time.time()
        first = {"done": False}
        if collect_functions:
            from . import qenv

            def fn_prof():
                if not first["done"]:
                    first["done"] = True
                    r, fs = qenv.functions_called(fn)
                    res["functions"] = fs
                    return r
                return fn()
            target = fn_prof
        else:
            target = fn
        paths, complete, info = core.explore(target, assume=assume_f, max_paths=ob.max_paths, time_budget=ob.explore_budget)
        res["symexec_s"] = round(time.time() - ts, 3)
        res["paths"] = len(paths)
        res["branch_queries"] = core.CTX.stats["branch_queries"]
        if not complete:
            res["inconclusive"].append(f"exploration incomplete: {info['budget']}")
        if not paths:
            res["inconclusive"].append("no feasible path (vacuous assumptions?)")
        dump = {"smt2": None}
        reach_ok = False
        for p in paths:
            if p.kind == "ok":
                claims = p.value
                pv = decide_path(ob, p, claims, assume_f, lambda vals: replay_concrete(ob, vals), dump)
            elif p.kind == "exc":
                # the real code raised on this path: candidate violation if it reproduces concretely
                pv = PathVerdict()
                s = _solver(ob.solver_timeout_ms)
                s.add(_base_constraints(ob, p, assume_f))
                r = _check(s, pv)
                et = type(p.value).__name__
                ext_vals = None
                if r != "unsat" and (p.monos or any(d[1] is not None for d in p.defs)):
                    r, ext_vals = external_check(_base_constraints(ob, p, assume_f) + _exact_constraints(p, set(p.monos)),
                                                 [n for n, _, _, _ in ob.inputs], min(180.0, ob.exact_timeout_ms / 1000.0))
                    pv.queries += 1
                if r == "unsat":
                    pv.status = "holds"
                    pv.detail = "exception path infeasible"
                else:
                    done = False
                    if r == "sat":
                        try:
                            vals = _values_inputs(ob, ext_vals) if ext_vals is not None else _model_inputs(ob, s.model())
                            ok, label, detail = replay_concrete(ob, vals, "exc", et)
                            if ok:
                                pv.status, pv.replay, pv.label, pv.detail = "violation", vals, label, detail
                                done = True
                            else:
                                pv.detail = detail
                        except Exception as e:
                            pv.detail = f"model extraction failed: {e}"
                    if not done:
                        pv.status = "inconclusive"
                        tb = "".join(traceback.format_exception(type(p.value), p.value, p.value.__traceback__)[-6:])
                        pv.detail = f"symbolic run raised {et}: {str(p.value)[:300]} ({pv.detail})\n{tb}"
            elif p.kind == "stubmiss":
                # a contract stub could not answer on this path (e.g. eigh on a matrix that is not the registered one).  The symbolic
                # run stops there, but a model of the path can still be replayed on the real code: a failing claim is a real violation
                pv = PathVerdict()
                pv.status = "inconclusive"
                pv.detail = f"stubmiss: {p.value}"
                for margin in (1e-3, 1e-6, 0.0):
                    s = _solver(20000)
                    s.add(core.bounds_constraints(margin))
                    s.add([a.tighten(margin).z3() if margin else a.z3() for a in assume_f])
                    s.add([c.z3() for c in p.pc])
                    s.add([d[0] for d in p.defs if d[0] is not None])
                    if _check(s, pv) == "sat":
                        try:
                            vals = _model_inputs(ob, s.model())
                            ok, label, detail = replay_concrete(ob, vals)
                            if ok:
                                pv.status, pv.replay, pv.label = "violation", vals, label
                                pv.detail = f"path abandoned by a stub ({p.value}); a model of the path reproduced on the real code: {detail}"
                                break
                        except Exception:
                            pass
            elif p.kind == "outside":
                pv = PathVerdict()
                pv.status = "outside"
                res.setdefault("outside_paths", 0)
                res["outside_paths"] += 1
            else:
                pv = PathVerdict()
                pv.status = "inconclusive"
                pv.detail = f"{p.kind}: {p.value}"
            res["queries"] += pv.queries
            res["solver_s"] += pv.solver_s
            if pv.status == "holds" and pv.queries == 0:
                res["syntactic_paths"] = res.get("syntactic_paths", 0) + 1
            for k_, v_ in pv.cross.items():
                res.setdefault("cross", {"agree": 0, "disagree": 0, "unknown": 0})[k_] += v_
            if pv.relaxed_only:
                res["relaxed_paths"] += 1
            if pv.status == "violation":
                res["violations"].append({"label": pv.label, "detail": pv.detail, "inputs": {k: str(v) for k, v in pv.replay.items()},
                                          "trace": p.trace})
            elif pv.status == "inconclusive":
                res["inconclusive"].append(pv.detail[:1500])
            if len(res["violations"]) >= 3:
                break
        res["smt2_sample"] = dump["smt2"]
        # vacuity / reachability witness + translator validation
        if paths and not res["violations"] and ob.tv_points > 0:
            ndone, problems = translator_validation(ob, paths, rng, assume_f)
            res["tv_points"] = ndone
            for vals_, label_, detail_ in CONCRETE_FAILS[:2]:
                res["violations"].append({"label": label_, "inputs": {k: str(v) for k, v in vals_.items()}, "trace": [],
                                          "detail": "found at a translator-validation point (sampling; the symbolic model and the real code diverge "
                                                    "here), reproduced on the real code: " + detail_})
            if ndone == 0:
                # fall back to a solver model of the assumptions of the first ok path
                for p in paths:
                    for margin in (1e-4, 1e-7, 0.0):
                        s = _solver(20000)
                        if margin:
                            s.add(core.bounds_constraints(margin))
                            s.add([a.tighten(margin).z3() for a in assume_f])
                            s.add([c.z3() for c in p.pc])
                            s.add([d[0] for d in p.defs if d[0] is not None])
                        else:
                            s.add(_base_constraints(ob, p, assume_f))
                        if len(p.monos) <= 40:
                            s.add(_exact_constraints(p, set(p.monos)))
                        if str(s.check()) == "sat":
                            vals = _model_inputs(ob, s.model())
                            cr = ConcreteRun(ob, vals)
                            if cr.assume_ok and cr.exc is None:
                                ndone = 1
                                res["tv_points"] = 1
                                break
                    if ndone:
                        break
                if ndone == 0:
                    problems.append("no concrete point satisfying the assumptions was found (vacuity suspect)")
            for pr in problems:
                res["inconclusive"].append("translator validation: " + pr)
    except Exception as e:
        res["inconclusive"].append("harness error: " + "".join(traceback.format_exception(type(e), e, e.__traceback__)[-8:]))
    res["solver_s"] = round(res["solver_s"], 3)
    res["wall_s"] = round(time.time() - t0, 3)
    if res["violations"]:
        res["status"] = "violation"
    elif res["inconclusive"]:
        res["status"] = "inconclusive"
    else:
        res["status"] = "holds"
    return res


def _bounds_summary(ob):
    if not ob.inputs:
        return "no symbolic inputs"
    kinds = {}
    for name, kind, lo, hi in ob.inputs:
        key = (kind, lo, hi)
        kinds[key] = kinds.get(key, 0) + 1
    return "; ".join(f"{n} {k} in [{lo},{hi}]" for (k, lo, hi), n in kinds.items())


# ----------------------------------------------------------------------------------------
# known findings
# ----------------------------------------------------------------------------------------
def load_known(prop):
    p = os.path.join(VERIF, "known_findings.json")
    if not os.path.exists(p):
        return [], []
    data = json.load(open(p))
    open_ = [f for f in data.get("findings", []) if f.get("property") == prop and f.get("status", "open") == "open"]
    fixed = [f for f in data.get("findings", []) if f.get("property") == prop and f.get("status") == "fixed"]
    return open_, fixed


def match_known(finding, res, viol):
    if finding.get("obligation") != res["name"]:
        return False
    m = finding.get("match", {})
    for k, v in m.get("cfg", {}).items():
        if res["cfg"].get(k) != v:
            return False
    if "label" in m and viol.get("label") != m["label"]:
        return False
    if "label_prefix" in m and not str(viol.get("label", "")).startswith(m["label_prefix"]):
        return False
    if "detail_contains" in m and m["detail_contains"] not in viol.get("detail", ""):
        return False
    return True


# ----------------------------------------------------------------------------------------
# property-level driver
# ----------------------------------------------------------------------------------------
def _worker(args):
    modname, tier, idx, seed = args
    import importlib
    mod = importlib.import_module(modname)
    specs = mod.obligations(tier)
    spec = specs[idx]
    try:
        ob = spec.make()
        ob.name = spec.name
        ob.cfg = spec.cfg
        r = run_obligation(ob, seed=seed, tier=tier)
    except Exception as e:
        r = {"name": spec.name, "cfg": spec.cfg, "ident": spec.name + json.dumps(spec.cfg, sort_keys=True, default=str),
             "status": "inconclusive", "violations": [], "paths": 0, "queries": 0, "solver_s": 0.0, "symexec_s": 0.0,
             "inconclusive": ["harness error: " + "".join(traceback.format_exception(type(e), e, e.__traceback__)[-8:])],
             "functions": [], "stubs": [], "outside": [], "n_inputs": 0, "tv_points": 0, "relaxed_paths": 0,
             "branch_queries": 0, "smt2_sample": None, "bounds": "", "wall_s": 0.0}
    return idx, r


def _blank_result(spec, why):
    return {"name": spec.name, "cfg": spec.cfg, "ident": spec.name + "[" + json.dumps(spec.cfg, sort_keys=True, default=str) + "]",
            "status": "inconclusive", "violations": [], "paths": 0, "queries": 0, "solver_s": 0.0, "symexec_s": 0.0,
            "inconclusive": [why], "functions": [], "stubs": [], "outside": [], "n_inputs": 0, "tv_points": 0, "relaxed_paths": 0,
            "branch_queries": 0, "smt2_sample": None, "bounds": "", "wall_s": 0.0}


def _child(conn, modname, tier, idx, seed):
    try:
        r = _worker((modname, tier, idx, seed))
        conn.send(r)
    except BaseException as e:      # noqa
        try:
            conn.send((idx, None))
        except Exception:
            pass
    finally:
        conn.close()
        os._exit(0)


def run_tasks(modname, tier, order, seed, jobs, specs, verbose=False, hard_timeout=None):
    """one forked process per obligation (isolates solver crashes), at most `jobs` at a time, each under a hard wall-clock
    limit; a crashed or killed task is reported as inconclusive"""
    import multiprocessing as mp
    ctx = mp.get_context("fork")
    hard_timeout = hard_timeout or float(os.environ.get("VERIF_TASK_TIMEOUT", "2700" if tier == "quick" else "7200"))
    pending = list(order)
    running = {}
    results = {}
    while pending or running:
        while pending and len(running) < max(1, jobs):
            idx = pending.pop(0)
            pc, cc = ctx.Pipe(duplex=False)
            p = ctx.Process(target=_child, args=(cc, modname, tier, idx, seed))
            p.daemon = True
            p.start()
            cc.close()
            running[idx] = (p, pc, time.time())
        done = []
        for idx, (p, pc, t0) in running.items():
            r = None
            alive = p.is_alive()        # sampled BEFORE the pipe is polled: a child that wrote its result and exited in between is not "dead"
            if pc.poll():
                try:
                    got = pc.recv()
                    r = got[1]
                except (EOFError, OSError):
                    r = None
                if r is None:
                    r = _blank_result(specs[idx], "worker process failed while running this obligation")
            elif not alive:
                r = _blank_result(specs[idx], f"worker process died (exit code {p.exitcode}) - solver crash?")
            elif time.time() - t0 > hard_timeout:
                p.kill()
                r = _blank_result(specs[idx], f"hard wall-clock limit {hard_timeout:.0f}s exceeded; task killed")
            if r is not None:
                results[idx] = r
                done.append(idx)
                p.join(timeout=1)
                if verbose:
                    print(f"  [{r['status']}] {r['ident']} paths={r['paths']} q={r['queries']} {r['wall_s']}s", flush=True)
        for idx in done:
            running.pop(idx)
        if not done:
            time.sleep(0.01)
    return results


def write_replay(prop, res, viol):
    d = os.path.join(VERIF, "replays", prop)
    os.makedirs(d, exist_ok=True)
    h = hashlib.sha1((res["ident"] + json.dumps(viol["inputs"], sort_keys=True)).encode()).hexdigest()[:10]
    path = os.path.join(d, f"{res['name']}-{h}.json")
    json.dump({"property": prop, "obligation": res["name"], "cfg": res["cfg"], "label": viol["label"],
               "detail": viol["detail"], "inputs": viol["inputs"]}, open(path, "w"), indent=1)
    return path


def main(prop, modname, extra_engines=None, level="other", argv=None):
    ap = argparse.ArgumentParser()
    ap.add_argument("--tier", default=os.environ.get("VERIF_TIER", "quick"), choices=["quick", "thorough"])
    ap.add_argument("--jobs", type=int, default=int(os.environ.get("VERIF_JOBS", "16")))
    ap.add_argument("--replay", default=None)
    ap.add_argument("--only", default=None, help="substring filter on obligation names")
    ap.add_argument("--list", action="store_true")
    ap.add_argument("-v", action="store_true")
    a = ap.parse_args(argv)
    seed = int(os.environ.get("VERIF_SEED", "0"))
    import importlib
    mod = importlib.import_module(modname)
    if a.replay:
        return do_replay(prop, mod, a.replay)
    t0 = time.time()
    specs = mod.obligations(a.tier)
    idxs = [i for i, s in enumerate(specs) if a.only is None or a.only in (s.name + "[" + json.dumps(s.cfg, sort_keys=True, default=str) + "]")]
    if a.list:
        for i in idxs:
            print(specs[i].name, json.dumps(specs[i].cfg, sort_keys=True, default=str))
        return 0
    order = sorted(idxs, key=lambda i: -specs[i].weight)
    results = run_tasks(modname, a.tier, order, seed, a.jobs, specs, verbose=a.v)
    extra = []
    if extra_engines and a.only is None:
        for eng in extra_engines:
            extra.append(eng(a.tier, seed))
    return finish(prop, a.tier, seed, [results[i] for i in idxs], extra, t0, level, write_evidence=(a.only is None))


def finish(prop, tier, seed, results, extra, t0, level, write_evidence=True):
    known, fixed = load_known(prop)
    n_viol = 0
    lines = []
    known_hit = set()
    incon = []
    for r in results:
        for v in r["violations"]:
            hit = None
            for f in known:
                if match_known(f, r, v):
                    hit = f
                    break
            if hit is not None:
                if hit["id"] not in known_hit:
                    known_hit.add(hit["id"])
                    lines.append(f"KNOWN-FINDING: property={prop} {hit['id']}: {hit['what']}")
                v["known"] = hit["id"]
            else:
                n_viol += 1
                path = write_replay(prop, r, v)
                lines.append(f"VIOLATION property={prop} replay={path}")
                lines.append(f"  obligation {r['ident']} claim {v['label']}: {v['detail'][:300]}")
        if r["status"] == "inconclusive":
            incon.append(r)
    for e in extra:
        for v in e.get("violations", []):
            n_viol += 1
            lines.append(f"VIOLATION property={prop} replay={v.get('replay', '-')}")
            lines.append(f"  {v.get('detail', '')[:300]}")
        if e.get("status") == "inconclusive":
            incon.append({"ident": e.get("name"), "inconclusive": e.get("inconclusive", [])})
    for ln in lines:
        print(ln)
    for r in incon:
        print(f"INCONCLUSIVE {r['ident']}: " + " | ".join(str(x)[:600] for x in r["inconclusive"][:3]))
    wall = time.time() - t0
    ev = build_evidence(prop, tier, seed, results, extra, wall, n_viol, level, sorted(known_hit))
    if write_evidence:
        evdir = os.environ.get("VERIF_EVIDENCE_DIR") or os.path.join(VERIF, "evidence")   # seeded-change runs write elsewhere
        os.makedirs(evdir, exist_ok=True)
        json.dump(ev, open(os.path.join(evdir, f"{prop}.json"), "w"), indent=1)
    nh = sum(1 for r in results if r["status"] == "holds")
    print(f"{prop} [{tier}] obligations={len(results)} holds={nh} violations={n_viol} known={len(known_hit)} "
          f"inconclusive={len(incon)} paths={sum(r['paths'] for r in results)} queries={sum(r['queries'] for r in results)} "
          f"solver={sum(r['solver_s'] for r in results):.1f}s wall={wall:.1f}s")
    if n_viol:
        return EXIT_VIOLATION
    if incon:
        return EXIT_INCONCLUSIVE
    return EXIT_OK


def build_evidence(prop, tier, seed, results, extra, wall, n_viol, level, known_hit):
    functions = sorted({f for r in results for f in r.get("functions", [])})
    stubs = sorted({s for r in results for s in r.get("stubs", [])})
    outside = sorted({s for r in results for s in r.get("outside", [])})
    n_ob = len(results) + sum(e.get("obligations", 0) for e in extra)
    discharged = sum(1 for r in results if r["status"] == "holds") + sum(e.get("discharged", 0) for e in extra)
    distinct = len({r["ident"] for r in results if r["paths"] > 0 and r["n_inputs"] > 0}) + sum(e.get("discharged", 0) for e in extra)
    samples = []
    for r in results[:3]:
        samples.append({"obligation": r["ident"], "status": r["status"], "paths": r["paths"], "queries": r["queries"],
                        "bounds": r["bounds"], "smt2_head": (r.get("smt2_sample") or "")[:1500]})
    for e in extra:
        samples.extend(e.get("samples", [])[:2])
    per_ob = [{"obligation": r["ident"], "status": r["status"], "paths": r["paths"], "queries": r["queries"],
               "solver_s": r["solver_s"], "symexec_s": r["symexec_s"], "relaxed_paths": r["relaxed_paths"],
               "tv_points": r["tv_points"], "bounds": r["bounds"],
               "known": [v.get("known") for v in r["violations"] if v.get("known")]} for r in results]
    ev = {
        "property_id": prop, "tier": tier, "seed": seed, "level": level,
        "coverage": {
            "explanation": "Bounded solver-based checking of the real code: the listed quara functions were executed on "
                           "symbolic numpy arrays (symq), every feasible path enumerated, and for each path z3 decided "
                           "bounds ∧ assumptions ∧ path-condition ∧ definitions ∧ ¬claim; `unsat` on every path = the claim holds for "
                           "all input values within the stated bounds. Models are replayed on plain numpy before being reported.",
            "obligations": n_ob, "discharged": discharged,
            "evaluations": sum(r["queries"] + r.get("syntactic_paths", 0) for r in results) + sum(e.get("evaluations", 0) for e in extra),
            "smt_queries": sum(r["queries"] for r in results),
            "paths_decided_before_any_query": sum(r.get("syntactic_paths", 0) for r in results),
            "distinct_nontrivial": distinct,
            "rule": "one evaluation = one decision of the negated claims on one path of one obligation/configuration: an SMT query, or -- when the "
                    "difference polynomials are identically zero / bounded by the tolerance over the whole input box by interval arithmetic -- a "
                    "decision by the normal form before any query (counted separately as paths_decided_before_any_query; branch-feasibility "
                    "queries of the path exploration are counted separately, too); distinct non-trivial = "
                    "obligation/configuration pairs with at least one symbolic input and at least one explored path",
            "paths": sum(r["paths"] for r in results),
            "branch_feasibility_queries": sum(r.get("branch_queries", 0) for r in results),
            "solver": "z3 " + z3.get_version_string(), "solver_time_s": round(sum(r["solver_s"] for r in results) + sum(e.get("solver_s", 0) for e in extra), 2),
            "symbolic_execution_time_s": round(sum(r["symexec_s"] for r in results), 2),
            "functions_encoded": functions, "stubs": stubs, "outside_the_claim": outside,
            "translator_validation_points": sum(r["tv_points"] for r in results),
            "paths_decided_under_monomial_relaxation": sum(r["relaxed_paths"] for r in results),
            "second_solver_cross_check": dict({k_: sum(r.get("cross", {}).get(k_, 0) for r in results) for k_ in ("agree", "disagree", "unknown")},
                                              solver="cvc5 binary (" + (subprocess.run(["cvc5", "--version"], capture_output=True, text=True).stdout.split("\n")[0] if __import__("shutil").which("cvc5") else "absent") + ")",
                                              rule="every `unsat` (= holds) verdict of the main per-path query is re-decided by cvc5 on the same SMT-LIB text: the first 3 (quick tier) / 20 (thorough tier) per obligation, all with VERIF_CROSS=1; cvc5 `sat` makes the path inconclusive"),
            "known_findings_reported": known_hit,
            "per_obligation": per_ob, "extra_engines": [{k: v for k, v in e.items() if k != "samples"} for e in extra],
            "samples": samples, "exhaustive": False,
            "checker_cmd": f"python checks/{prop.lower()}.py --tier {tier}",
            "trusted_base": ["z3", "symq symbolic numpy layer (validated per obligation against concrete runs)", "numpy's python-level implementations"],
        },
        "assumptions": [
            "real-arithmetic semantics; double constants at their exact rational value; IEEE rounding of individual operations is outside (addressed by replay and translator validation)",
            "scipy.linalg.kron := numpy.kron (scipy 1.18 dropped it; harness-level shim)",
            "module-global np of quara modules rebound to a proxy whose array-creation functions return symbolic arrays; SymNd.dtype reports float64/complex128 to quara frames",
            "scipy.sparse mat-vec with a symbolic operand computed as toarray() @ x",
        ] + [f"stub: {s}" for s in stubs],
        "wall_s": round(wall, 2), "violations": n_viol,
    }
    if level == "translation_validation":
        # the level's own keys: one "program" = one obligation/configuration in which the library routine is compared with the reference
        # formulation over the same uninterpreted operations; disagreements found are replayed before being reported
        ev["coverage"]["programs"] = max(1, n_ob)
        ev["coverage"]["disagreements_checked"] = n_viol
    return ev


def do_replay(prop, mod, path):
    data = json.load(open(path))
    specs = mod.obligations("thorough") + mod.obligations("quick")
    for s in specs:
        if s.name == data["obligation"] and json.dumps(s.cfg, sort_keys=True, default=str) == json.dumps(data["cfg"], sort_keys=True, default=str):
            ob = s.make()
            ob.name, ob.cfg = s.name, s.cfg
            ob.setup()
            vals = {k: (int(v) if "/" not in v and "." not in v and k in {n for n, kd, _, _ in ob.inputs if kd == "int"} else Fraction(v)) for k, v in data["inputs"].items()}
            ok, label, detail = replay_concrete(ob, vals)
            print(("REPRODUCED " if ok else "NOT REPRODUCED ") + f"{data['obligation']} {label}: {detail}")
            return 1 if ok else 0
    print("obligation not found for replay")
    return 2
