"""symq.refs -- short reference formulas written from the mathematical definitions.
They work on plain numpy arrays and on SymNd (object) arrays alike and never call quara."""
import itertools
import numpy as np
from .nd import SymNd, has_sym
from .core import Sym

S2 = np.sqrt(2.0)


# ---- reference bases (written from the textbook definitions, independent of quara.matrix_basis)
def pauli(normalized=True):
    I = np.eye(2, dtype=complex)
    X = np.array([[0, 1], [1, 0]], dtype=complex)
    Y = np.array([[0, -1j], [1j, 0]], dtype=complex)
    Z = np.array([[1, 0], [0, -1]], dtype=complex)
    f = 1 / S2 if normalized else 1.0
    return [f * m for m in (I, X, Y, Z)]


def gell_mann():
    l = [np.sqrt(2 / 3) * np.eye(3, dtype=complex)]
    def E(i, j, v):
        m = np.zeros((3, 3), dtype=complex)
        m[i, j] = v
        return m
    l.append(E(0, 1, 1) + E(1, 0, 1))
    l.append(E(0, 1, -1j) + E(1, 0, 1j))
    l.append(E(0, 0, 1) + E(1, 1, -1))
    l.append(E(0, 2, 1) + E(2, 0, 1))
    l.append(E(0, 2, -1j) + E(2, 0, 1j))
    l.append(E(1, 2, 1) + E(2, 1, 1))
    l.append(E(1, 2, -1j) + E(2, 1, 1j))
    l.append((E(0, 0, 1) + E(1, 1, 1) + E(2, 2, -2)) / np.sqrt(3))
    return [m / S2 for m in l]


def hermitian_basis_normalized(dim=2):
    """the library's documented 'normalized Hermitian basis': off-diagonal pairs column by column, then diagonal units"""
    basis = []
    for col in range(dim):
        for row in range(col):
            a = np.zeros((dim, dim), dtype=complex)
            a[row, col] = a[col, row] = 1 / S2
            basis.append(a)
            b = np.zeros((dim, dim), dtype=complex)
            b[row, col] = -1j / S2
            b[col, row] = 1j / S2
            basis.append(b)
        d = np.zeros((dim, dim), dtype=complex)
        d[col, col] = 1
        basis.append(d)
    return basis


def ref_basis(cfg):
    single = {"Q": pauli(True), "T": gell_mann()}
    if cfg == "Q1u":
        return pauli(False)
    if cfg == "Q2x":
        P = pauli(True)
        first = [P[1], P[0], P[2], P[3]]
        return [np.kron(a, b) for a in first for b in P]
    if cfg == "Q1x":
        P = pauli(True)
        return [P[1], P[0], P[2], P[3]]
    if cfg == "Q1h":
        return None  # checked for orthonormality/hermiticity only
    kinds = {"Q1": "Q", "T1": "T", "Q2": "QQ", "QT": "QT", "TQ": "TQ", "Q3": "QQQ", "T2": "TT", "Q4": "QQQQ"}[cfg]
    out = [np.eye(1, dtype=complex)]
    for k in kinds:
        out = [np.kron(a, b) for a in out for b in single[k]]
    return out


# ---- conversions ---------------------------------------------------------------------------
def _o(a):
    return np.asarray(a, dtype=object) if has_sym(a) else np.asarray(a)


def ref_matrix(vec, basis):
    """sum_i vec_i B_i"""
    d = basis[0].shape[0]
    out = np.zeros((d, d), dtype=object)
    for c, B in zip(vec, basis):
        for r in range(d):
            for s in range(d):
                if B[r, s] != 0:
                    out[r, s] = out[r, s] + c * B[r, s]
    return out.view(SymNd)


def ref_vec(M, basis):
    """Tr(B_i^dagger M)"""
    d = basis[0].shape[0]
    out = []
    for B in basis:
        t = 0
        for r in range(d):
            for s in range(d):
                if B[r, s] != 0:
                    t = t + np.conj(B[r, s]) * M[r, s]
        out.append(t)
    return SymNd(out)


def ref_choi(hs, basis):
    """C = sum_ab hs_ab B_a (x) conj(B_b)"""
    n = len(basis)
    d = basis[0].shape[0]
    out = np.zeros((d * d, d * d), dtype=object)
    for a in range(n):
        for b in range(n):
            K = np.kron(basis[a], np.conj(basis[b]))
            nz = np.nonzero(K)
            h = hs[a, b]
            for r, s in zip(*nz):
                out[r, s] = out[r, s] + h * K[r, s]
    return out.view(SymNd)


def ref_hs_from_choi(choi, basis):
    """hs_ab = Tr((B_a (x) conj B_b)^dagger C)"""
    n = len(basis)
    out = np.zeros((n, n), dtype=object)
    for a in range(n):
        for b in range(n):
            K = np.conj(np.kron(basis[a], np.conj(basis[b])))   # entrywise conj of K; Tr(K^dag C) = sum conj(K_rs) C_rs
            nz = np.nonzero(K)
            t = 0
            for r, s in zip(*nz):
                t = t + K[r, s] * choi[r, s]
            out[a, b] = t
    return out.view(SymNd)


def ref_hs_from_kraus(kraus, basis):
    """hs_ab = sum_k Tr(B_a^dagger K B_b K^dagger)"""
    n = len(basis)
    out = np.zeros((n, n), dtype=object)
    for K in kraus:
        K = np.asarray(K, dtype=object)
        Kd = dag(K)
        for b in range(n):
            M = mm(mm(K, basis[b]), Kd)
            for a in range(n):
                out[a, b] = out[a, b] + tr(mm(dag(basis[a]), M))
    return out.view(SymNd)


def ref_apply_kraus(kraus, rho):
    d = rho.shape[0]
    out = np.zeros((d, d), dtype=object)
    for K in kraus:
        out = out + mm(mm(K, rho), dag(K))
    return np.asarray(out, dtype=object).view(SymNd)


def mm(a, b):
    a = np.asarray(a, dtype=object)
    b = np.asarray(b, dtype=object)
    n, k = a.shape
    k2, m = b.shape
    out = np.zeros((n, m), dtype=object)
    for i in range(n):
        for j in range(m):
            t = 0
            for l in range(k):
                x = a[i, l]
                y = b[l, j]
                if (type(x) is not Sym and x == 0) or (type(y) is not Sym and y == 0):
                    continue
                t = t + x * y
            out[i, j] = t
    return out.view(SymNd)


def dag(a):
    a = np.asarray(a, dtype=object)
    out = np.empty((a.shape[1], a.shape[0]), dtype=object)
    for i in range(a.shape[0]):
        for j in range(a.shape[1]):
            out[j, i] = np.conj(a[i, j]) if type(a[i, j]) is not Sym else a[i, j].conjugate()
    return out.view(SymNd)


def tr(a):
    t = 0
    for i in range(a.shape[0]):
        t = t + a[i, i]
    return t


def kron(a, b):
    a = np.asarray(a, dtype=object)
    b = np.asarray(b, dtype=object)
    out = np.empty((a.shape[0] * b.shape[0], a.shape[1] * b.shape[1]), dtype=object)
    for i in range(a.shape[0]):
        for j in range(a.shape[1]):
            for k in range(b.shape[0]):
                for l in range(b.shape[1]):
                    out[i * b.shape[0] + k, j * b.shape[1] + l] = a[i, j] * b[k, l]
    return out.view(SymNd)


def born(povm_mats, rho):
    return SymNd([tr(mm(E, rho)) for E in povm_mats])


def hs_apply(hs, vec):
    n = len(vec)
    out = []
    for a in range(n):
        t = 0
        for b in range(n):
            t = t + hs[a, b] * vec[b]
        out.append(t)
    return SymNd(out)


def hermitian_from_params(prefix, d, lo, hi):
    """symbolic Hermitian d x d matrix with d^2 real parameters; returns (matrix, names)"""
    from . import core
    names = []
    M = np.zeros((d, d), dtype=object)
    for i in range(d):
        n = f"{prefix}d{i}"
        names.append(n)
        M[i, i] = core.sym_real(n, lo, hi)
    for i in range(d):
        for j in range(i + 1, d):
            nr, ni = f"{prefix}r{i}_{j}", f"{prefix}i{i}_{j}"
            names += [nr, ni]
            re = core.sym_real(nr, lo, hi)
            im = core.sym_real(ni, lo, hi)
            z = re + im * 1j
            M[i, j] = z
            M[j, i] = z.conjugate()
    return M.view(SymNd), names


# exact rational unitaries for the spectral parametrisation ---------------------------------
def unitary_library(d):
    """list of (name, V) with V exactly unitary in rational arithmetic"""
    out = [("id", np.eye(d, dtype=complex))]
    R = np.array([[3 / 5, -4 / 5], [4 / 5, 3 / 5]], dtype=complex)
    C = np.array([[3 / 5, 4j / 5], [4j / 5, 3 / 5]], dtype=complex)
    H = None
    if d == 2:
        out += [("rot", R), ("cplx", C)]
    elif d == 3:
        V = np.eye(3, dtype=complex)
        V[:2, :2] = C
        P = np.eye(3)[[2, 0, 1]].astype(complex)
        W = np.eye(3, dtype=complex)
        W[1:, 1:] = R
        out += [("cplx+1", V), ("perm.rot", P @ W @ V)]
    elif d == 4:
        out += [("rot(x)cplx", np.kron(R, C)), ("cplx(+)rot", _dsum(C, R) @ np.eye(4)[[1, 2, 3, 0]])]
    elif d == 6:
        V = np.eye(3, dtype=complex)
        V[:2, :2] = C
        out += [("cplx(x)cplx+1", np.kron(C, V))]
    elif d == 9:
        V = np.eye(3, dtype=complex)
        V[:2, :2] = C
        W = np.eye(3, dtype=complex)
        W[1:, 1:] = R
        out += [("(cplx+1)(x)(1+rot)", np.kron(V, W))]
    elif d == 16:
        out += [("RCxCR", np.kron(np.kron(R, C), np.kron(C, R)))]
    else:
        pass
    return out


def positive_frames(d):
    """exact unitaries whose columns all have a positive real first non-zero entry (no phase fixing in
    to_kraus_matrices_from_hs)"""
    Rp = np.array([[3 / 5, 4 / 5], [4 / 5, -3 / 5]], dtype=complex)
    Cp = np.array([[3 / 5, 4 / 5], [4j / 5, -3j / 5]], dtype=complex)
    out = [("id", np.eye(d, dtype=complex))]
    if d == 4:
        out += [("refl(x)cplx", np.kron(Rp, Cp)), ("perm", np.eye(4, dtype=complex)[[2, 0, 3, 1]])]
    elif d == 9:
        V3 = np.eye(3, dtype=complex)
        V3[:2, :2] = Cp
        W3 = np.eye(3, dtype=complex)
        W3[1:, 1:] = Rp
        out += [("(cplx+1)(x)(1+refl)", np.kron(V3, W3))]
    return out


def _dsum(a, b):
    out = np.zeros((a.shape[0] + b.shape[0], a.shape[1] + b.shape[1]), dtype=complex)
    out[:a.shape[0], :a.shape[1]] = a
    out[a.shape[0]:, a.shape[1]:] = b
    return out
