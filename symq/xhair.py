"""symq.xhair -- CrossHair (symbolic execution of pure-integer Python with z3) as a second engine for the
index-arithmetic obligations.  Harness files are generated under /verif/.work and checked with
`crosshair check --report_all`; every condition must come back "Confirmed over all paths" and the
reachability twin (`post: False`) must be refuted, otherwise the result is inconclusive."""
import os, re, subprocess, sys, time, json

VERIF = os.path.dirname(os.path.dirname(os.path.abspath(__file__)))
WORK = os.path.join(VERIF, ".work")


def run(name, source, timeout=60, expect_refuted=("vacuity_twin",)):
    os.makedirs(WORK, exist_ok=True)
    path = os.path.join(WORK, f"xh_{name}.py")
    open(path, "w").write(source)
    t0 = time.time()
    cmd = [sys.executable, "-m", "crosshair", "check", "--report_all", "--per_condition_timeout", str(timeout), path]
    env = dict(os.environ)
    env["PYTHONPATH"] = VERIF + os.pathsep + env.get("PYTHONPATH", "")
    p = subprocess.run(cmd, capture_output=True, text=True, env=env, timeout=timeout * 40 + 120)
    out = p.stdout + p.stderr
    wall = time.time() - t0
    # map line numbers -> function names
    lines = source.split("\n")
    def fn_at(lineno):
        for i in range(min(lineno, len(lines)) - 1, -1, -1):
            m = re.match(r"def (\w+)\(", lines[i])
            if m:
                return m.group(1)
        return "?"
    res = {}
    for ln in out.split("\n"):
        m = re.match(r".*xh_%s\.py:(\d+): (info|error): (.*)" % re.escape(name), ln)
        if not m:
            continue
        f = fn_at(int(m.group(1)))
        res.setdefault(f, []).append((m.group(2), m.group(3)))
    funcs = re.findall(r"^def (\w+)\(", source, flags=re.M)
    funcs = [f for f in funcs if re.search(r"def %s\(.*?\n\s+\"\"\"(.|\n)*?post:" % f, source)]
    confirmed, viol, incon = [], [], []
    for f in funcs:
        msgs = res.get(f, [])
        is_twin = any(f.startswith(t) for t in expect_refuted)
        if is_twin:
            if any(k == "error" for k, _ in msgs):
                confirmed.append(f + " (refuted as expected: harness reaches its post-condition)")
            else:
                incon.append(f"{f}: reachability twin was not refuted: {msgs}")
            continue
        if any(k == "error" for k, _ in msgs):
            viol.append({"detail": f"crosshair counterexample in {f}: " + "; ".join(t for k, t in msgs if k == "error"), "replay": path})
        elif msgs and all("Confirmed over all paths" in t for k, t in msgs):
            confirmed.append(f)
        else:
            incon.append(f"{f}: {msgs or 'no verdict'}")
    status = "violation" if viol else ("inconclusive" if incon else "holds")
    return {"name": f"crosshair:{name}", "status": status, "obligations": len(funcs), "discharged": len(confirmed),
            "violations": viol, "inconclusive": incon, "evaluations": len(funcs), "solver_s": round(wall, 2),
            "samples": [{"engine": "crosshair", "harness": path, "conditions": funcs, "confirmed": confirmed}],
            "raw_tail": out[-1500:] if status != "holds" else ""}
