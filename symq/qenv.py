"""symq.qenv -- import the real quara from /repo's working tree and provide configuration
factories (composite systems, bases).  Harness-level adaptation only: scipy 1.18 in /venv no
longer exports scipy.linalg.kron, which quara imports; numpy.kron is the same function for the
2-D operands quara passes."""
import os, sys, warnings, importlib
import numpy as np
import scipy.linalg

REPO = os.environ.get("QUARA_REPO", "/repo")
if REPO not in sys.path:
    sys.path.insert(0, REPO)
if not hasattr(scipy.linalg, "kron"):
    scipy.linalg.kron = np.kron
warnings.filterwarnings("ignore")
os.environ.setdefault("QUARA_VERIF", "1")

from . import nd

_MODS = [
    "quara.utils.matrix_util", "quara.utils.index_util", "quara.utils.number_util",
    "quara.math.matrix", "quara.math.entropy", "quara.math.probability", "quara.math.func_proj", "quara.math.norm",
    "quara.objects.qoperation", "quara.objects.state", "quara.objects.povm", "quara.objects.gate",
    "quara.objects.mprocess", "quara.objects.operators", "quara.objects.state_ensemble",
    "quara.objects.multinomial_distribution", "quara.objects.qoperations", "quara.objects.effective_lindbladian",
    "quara.objects.prob_dist",
    "quara.protocol.qtomography.qtomography",
    "quara.protocol.qtomography.standard.standard_qtomography",
    "quara.protocol.qtomography.standard.standard_qst", "quara.protocol.qtomography.standard.standard_povmt",
    "quara.protocol.qtomography.standard.standard_qpt", "quara.protocol.qtomography.standard.standard_qmpt",
    "quara.protocol.qtomography.standard.linear_estimator",
    "quara.protocol.qtomography.standard.projected_linear_estimator",
    "quara.protocol.qtomography.standard.loss_minimization_estimator",
    "quara.protocol.qtomography.standard.standard_qtomography_estimator",
    "quara.loss_function.loss_function", "quara.loss_function.probability_based_loss_function",
    "quara.loss_function.weighted_probability_based_squared_error", "quara.loss_function.weighted_relative_entropy",
    "quara.loss_function.standard_qtomography_based_weighted_probability_based_squared_error",
    "quara.loss_function.standard_qtomography_based_weighted_relative_entropy",
    "quara.loss_function.simple_quadratic_loss_function",
    "quara.minimization_algorithm.minimization_algorithm",
    "quara.minimization_algorithm.projected_gradient_descent",
    "quara.minimization_algorithm.projected_gradient_descent_backtracking",
    "quara.minimization_algorithm.projected_gradient_descent_with_momentum",
    "quara.minimization_algorithm.projected_fast_iterative_shrinkage_thresholding_algorithm",
    "quara.qcircuit.experiment", "quara.qcircuit.data_generator",
]
TYPE_SHIM = {"quara.math.entropy", "quara.qcircuit.experiment", "quara.loss_function.weighted_relative_entropy",
             "quara.objects.multinomial_distribution", "quara.objects.prob_dist", "quara.objects.state_ensemble"}


def modules(names=None):
    out = []
    for n in (names or _MODS):
        out.append(importlib.import_module(n))
    return out


def install_all(names=None):
    """rebind the module-global `np` (and where listed `type`) of the quara modules under analysis"""
    for m in modules(names):
        nd.install([m], type_shim=m.__name__ in TYPE_SHIM)


def uninstall_all():
    nd.uninstall()


# ---- configuration factories ---------------------------------------------------------------
_CS_CACHE = {}


def csys(cfg, ids=None):
    """'Q1','T1','Q2','QT' (qubit x qutrit), 'Q1u' (unnormalised Pauli), 'Q1h' (normalised Hermitian
    basis, identity not first), 'Q3'"""
    from quara.objects.composite_system import CompositeSystem
    from quara.objects.elemental_system import ElementalSystem
    from quara.objects import matrix_basis as mb
    key = (cfg, tuple(ids) if ids else None)
    if key in _CS_CACHE:
        return _CS_CACHE[key]
    bases = {
        "Q": mb.get_normalized_pauli_basis, "T": mb.get_normalized_gell_mann_basis,
    }
    if cfg == "Q1u":
        es = [ElementalSystem(ids[0] if ids else 0, mb.get_pauli_basis())]
    elif cfg == "Q1h":
        es = [ElementalSystem(ids[0] if ids else 0, mb.get_normalized_hermitian_basis())]
    elif cfg == "Q1x":
        # orthonormal Hermitian basis whose FIRST element is not the identity but has a constant diagonal: (X, I, Y, Z)/sqrt2
        P = [np.asarray(b.toarray() if hasattr(b, "toarray") else b) for b in mb.get_normalized_pauli_basis()]
        es = [ElementalSystem(ids[0] if ids else 0, mb.MatrixBasis([P[1], P[0], P[2], P[3]]))]
    elif cfg == "Q2x":
        # two qubits, the FIRST (lower name) with the X-first basis, the second with the normalised Pauli basis
        P = [np.asarray(b.toarray() if hasattr(b, "toarray") else b) for b in mb.get_normalized_pauli_basis()]
        names = ids or [0, 1]
        es = [ElementalSystem(names[0], mb.MatrixBasis([P[1], P[0], P[2], P[3]])), ElementalSystem(names[1], mb.get_normalized_pauli_basis())]
    else:
        kinds = {"Q1": "Q", "T1": "T", "Q2": "QQ", "QT": "QT", "TQ": "TQ", "Q3": "QQQ", "T2": "TT", "Q4": "QQQQ"}[cfg]
        names = ids or list(range(len(kinds)))
        es = [ElementalSystem(n, bases[k]()) for n, k in zip(names, kinds)]
    _warm_sibling(cfg, ids)
    c = CompositeSystem(es)
    _CS_CACHE[key] = c
    return c


_LAZY_TABLES = ("dict_from_hs_to_choi", "dict_from_choi_to_hs", "basis_T_sparse", "basisconjugate_sparse", "basisconjugate_basis_sparse",
                "basis_basisconjugate_T_sparse", "basis_basisconjugate_T_sparse_from_1", "basishermitian_basis_T_from_1")
WARMED = []


def _warm_sibling(cfg, ids):
    """Before the composite system of a configuration is created, a SIBLING system of the same shape but with another matrix
    basis is created in the same process and all its lazily built tables are requested (and a state / gate conversion run on
    it).  Nothing is claimed about the sibling; it is there so that state shared between composite systems -- a table
    memoised per shape instead of per object -- shows up as a wrong result of the system under test."""
    from quara.objects.composite_system import CompositeSystem
    from quara.objects.elemental_system import ElementalSystem
    from quara.objects import matrix_basis as mb
    dims = {"Q1": [2], "Q1u": [2], "Q1h": [2], "Q1x": [2], "T1": [3], "Q2": [2, 2], "QT": [2, 3], "TQ": [3, 2]}.get(cfg)
    if dims is None or os.environ.get("SYMQ_NO_SIBLING"):
        return
    import numpy as _np
    from . import nd as _nd
    was = _nd.MODE["symbolic"]
    _nd.MODE["symbolic"] = False
    try:
        es = []
        for k, d in enumerate(dims):
            if d == 2:
                basis = mb.get_normalized_pauli_basis() if cfg == "Q1h" else mb.get_normalized_hermitian_basis(2)
            else:
                basis = mb.get_normalized_hermitian_basis(3)
            es.append(ElementalSystem(100 + k, basis))
        sib = CompositeSystem(es)
        for name in _LAZY_TABLES:
            getattr(sib, name)
        sib.basis()
        sib.comp_basis()
        sib.get_basis(0)
        n = sib.dim ** 2
        from quara.objects.state import State
        from quara.objects.gate import Gate
        from quara.objects.povm import Povm
        rs = _np.random.RandomState(7)
        st = State(sib, rs.normal(size=n), is_physicality_required=False)
        st.to_density_matrix()
        st.to_density_matrix_with_sparsity()
        pv = Povm(sib, [rs.normal(size=n), rs.normal(size=n)], is_physicality_required=False)
        pv.matrices()
        pv.matrices_with_sparsity()
        g = Gate(sib, rs.normal(size=(n, n)), is_physicality_required=False)
        g.to_choi_matrix()
        g.to_choi_matrix_with_dict()
        g.to_choi_matrix_with_sparsity()
        WARMED.append(cfg)
    finally:
        _nd.MODE["symbolic"] = was


def dense_basis(c_sys):
    return [b.toarray() if hasattr(b, "toarray") else np.asarray(b) for b in c_sys.basis()]


def functions_called(fn):
    """run fn() once under a profiler and collect the quara functions it executes"""
    seen = set()
    root = os.path.join(REPO, "quara")

    def prof(frame, event, arg):
        if event == "call":
            co = frame.f_code
            if co.co_filename.startswith(root):
                seen.add(f"{os.path.relpath(co.co_filename, REPO)}:{co.co_qualname if hasattr(co, 'co_qualname') else co.co_name}")
    sys.setprofile(prof)
    try:
        r = fn()
    finally:
        sys.setprofile(None)
    return r, sorted(seen)
