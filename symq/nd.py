"""symq.nd -- numpy arrays of symbolic scalars, numpy-namespace proxy for quara modules,
contract stubs for C boundaries."""
from __future__ import annotations
import sys, types, builtins
import numpy as np
import scipy.sparse as sp
from scipy.sparse import _base as _spbase_mod
from . import core
from .core import Sym, SBool, Poly, ite, s_and, s_or, frac

_nd_dtype = np.ndarray.dtype.__get__
_nd_getitem = np.ndarray.__getitem__
_nd_setitem = np.ndarray.__setitem__

MODE = {"symbolic": False}


def _lying_frame(depth=2):
    f = sys._getframe(depth)
    return f.f_globals.get("__name__", "").startswith("quara.")


def _allreal(a):
    for x in np.ndarray.reshape(np.asarray(a, dtype=object), -1):
        if type(x) is Sym:
            if x.im.t:
                return False
        elif isinstance(x, (complex, np.complexfloating)):
            return False
    return True


class SymNd(np.ndarray):
    """object-dtype ndarray of Sym / python numbers"""

    def __new__(cls, data):
        if isinstance(data, np.ndarray):
            a = np.empty(data.shape, dtype=object)
            a[...] = data
        else:
            a = np.empty(np.shape(data), dtype=object)
            if a.ndim == 0:
                a[()] = data
            else:
                a[...] = _to_obj(data)
        return a.view(cls)

    # quara's constructors test `vec.dtype != np.float64`; numpy's own python code needs the truth
    @property
    def dtype(self):
        if _lying_frame():
            return np.dtype(np.float64 if _allreal(self) else np.complex128)
        return _nd_dtype(self)

    @property
    def real(self):
        return _map(lambda x: x.real if type(x) is Sym else (x.real if isinstance(x, (complex, np.complexfloating)) else x), self)

    @property
    def imag(self):
        return _map(lambda x: x.imag if type(x) is Sym else (x.imag if isinstance(x, (complex, np.complexfloating)) else 0.0), self)

    def conj(self):
        return _map(lambda x: x.conjugate(), self)

    conjugate = conj

    def astype(self, dt, *a, **kw):
        if dt is object or np.dtype(dt) == object:
            return np.ndarray.astype(self, object).view(SymNd)
        if is_concrete(self):
            return to_concrete(self).astype(dt)
        if np.dtype(dt).kind == "f":
            if not _allreal(self):
                # numpy would drop the imaginary part with a ComplexWarning
                return self.real
        return self.copy()

    def tolist(self):
        return np.ndarray.tolist(self)

    def item(self, *a):
        return np.ndarray.item(self, *a)

    def _cmparr(self, o, op):
        if isinstance(o, (list, tuple)):
            o = np.asarray(o, dtype=object)
        ob = np.broadcast_to(np.asarray(o, dtype=object), np.broadcast_shapes(self.shape, np.shape(o)))
        sb = np.broadcast_to(np.asarray(self, dtype=object), ob.shape)
        out = np.empty(ob.shape, dtype=object)
        for idx in np.ndindex(ob.shape):
            r = getattr(Sym.of(sb[idx]), op)(ob[idx])
            if r is NotImplemented:
                r = getattr(Sym.of(ob[idx]), _SWAP[op])(sb[idx])
            out[idx] = r
        if out.ndim == 0:
            return out[()]
        return out.view(BoolNd)

    def __lt__(self, o):
        return self._cmparr(o, "__lt__")

    def __le__(self, o):
        return self._cmparr(o, "__le__")

    def __gt__(self, o):
        return self._cmparr(o, "__gt__")

    def __ge__(self, o):
        return self._cmparr(o, "__ge__")

    def __ne__(self, o):
        return self._cmparr(o, "__ne__")

    def __eq__(self, o):
        return self._cmparr(o, "__eq__")

    __hash__ = None

    def __getitem__(self, k):
        if isinstance(k, BoolNd):
            k = _concrete_mask(k)
        elif isinstance(k, tuple) and any(isinstance(x, BoolNd) for x in k):
            k = tuple(_concrete_mask(x) if isinstance(x, BoolNd) else x for x in k)
        r = _nd_getitem(self, k)
        return r

    def __setitem__(self, k, v):
        if isinstance(k, tuple) and any(isinstance(x, BoolNd) for x in k):
            # several symbolic masks in one index (a[mask, mask] = ...): the masks are made concrete by forking the path
            k = tuple(_concrete_mask(x) if isinstance(x, BoolNd) else x for x in k)
            _nd_setitem(self, k, v)
            return
        if isinstance(k, BoolNd):
            if np.ndim(v) and np.size(v) != 1:
                # numpy semantics: the value array supplies one entry per TRUE position, in order -- the mask is made concrete (fork)
                _nd_setitem(self, _concrete_mask(k), v)
                return
            flat_k = np.broadcast_to(k, self.shape)
            val = v if not np.ndim(v) else np.asarray(v, dtype=object).reshape(-1)[0]
            for idx in np.ndindex(self.shape):
                _nd_setitem(self, idx, ite(flat_k[idx], val, _nd_getitem(self, idx)))
            return
        _nd_setitem(self, k, v)

    def __pow__(self, k):
        return _map(lambda x: Sym.of(x) ** k, self)

    # in-place arithmetic with a bare symbolic scalar (numpy refuses: Sym opts out of ufuncs)
    def _inplace(self, o, op):
        if type(o) is Sym:
            r = op(self, o)
            _nd_setitem(self, Ellipsis, np.asarray(r, dtype=object))
            return self
        return NotImplemented

    def __isub__(self, o):
        r = self._inplace(o, lambda a, b: a - b)
        return r if r is not NotImplemented else np.ndarray.__isub__(self, o)

    def __iadd__(self, o):
        r = self._inplace(o, lambda a, b: a + b)
        return r if r is not NotImplemented else np.ndarray.__iadd__(self, o)

    def __imul__(self, o):
        r = self._inplace(o, lambda a, b: a * b)
        return r if r is not NotImplemented else np.ndarray.__imul__(self, o)

    def __itruediv__(self, o):
        r = self._inplace(o, lambda a, b: a / b)
        return r if r is not NotImplemented else np.ndarray.__itruediv__(self, o)

    def __array_function__(self, func, types_, args, kwargs):
        return _array_function(self, func, types_, args, kwargs)

    def __array_ufunc__(self, ufunc, method, *inputs, out=None, **kwargs):
        f = UFUNC_OVERRIDES.get(ufunc)
        if f is not None and method == "__call__":
            return f(*inputs, **kwargs)
        ins = tuple(np.asarray(x).view(np.ndarray) if isinstance(x, np.ndarray) else x for x in inputs)
        ins = tuple(x.astype(object) if isinstance(x, np.ndarray) and x.dtype != object else x for x in ins)
        if out is not None:
            if any(isinstance(o, np.ndarray) and _nd_dtype(o) != object for o in out) and any(has_sym(x) and not is_concrete(x) for x in inputs):
                # `int_or_float_array op= symbolic array`: numpy would have to store symbols in a numeric buffer.  The symbolic run stops
                # here (stub miss); a model of the path is replayed on the real code, where the operation is well defined.
                raise core.StubMiss("in-place ufunc into a numeric (non-object) array with a symbolic operand")
            kwargs["out"] = tuple(o.view(np.ndarray) if isinstance(o, np.ndarray) else o for o in out)
        if ufunc in (np.less, np.less_equal, np.greater, np.greater_equal, np.equal, np.not_equal) and method == "__call__":
            a, b = inputs
            a = a if isinstance(a, SymNd) else SymNd(np.asarray(a, dtype=object))
            return a._cmparr(b, "__" + _UF2OP[ufunc] + "__")
        r = getattr(ufunc, method)(*ins, **kwargs)
        if ufunc is np.true_divide and method == "__call__" and len(inputs) == 2 and type(inputs[1]) is Sym \
                and isinstance(r, np.ndarray) and not inputs[1].is_const() and inputs[1].isreal():
            # array / (its own sum): record the valid lemma sum(quotients) == 1
            try:
                num = [Sym.of(x) for x in np.ndarray.reshape(np.asarray(inputs[0], dtype=object), -1)]
                quo = [Sym.of(x) for x in np.ndarray.reshape(r, -1)]
                if all(x.isreal() for x in num):
                    core.CTX.lemma_normalised([q.re for q in quo], [x.re for x in num], inputs[1].re)
            except Exception:
                pass
        return _wrap(r)

    def __reduce__(self):
        return np.ndarray.__reduce__(self)

    def __deepcopy__(self, memo):
        out = np.empty(self.shape, dtype=object)
        out[...] = np.asarray(self, dtype=object)
        return out.view(SymNd)

    def setflags(self, *a, **k):
        return np.ndarray.setflags(self, *a, **k)


_SWAP = {"__lt__": "__gt__", "__le__": "__ge__", "__gt__": "__lt__", "__ge__": "__le__", "__eq__": "__eq__", "__ne__": "__ne__"}
_UF2OP = {np.less: "lt", np.less_equal: "le", np.greater: "gt", np.greater_equal: "ge", np.equal: "eq", np.not_equal: "ne"}


class BoolNd(np.ndarray):
    """object array of SBool / bool"""

    def __array_function__(self, func, types_, args, kwargs):
        return _array_function(self, func, types_, args, kwargs)

    def __array_ufunc__(self, ufunc, method, *inputs, out=None, **kwargs):
        # logical ufuncs on arrays of (symbolic) booleans stay arrays of booleans
        if method == "__call__" and out is None:
            if ufunc in (np.logical_not, np.invert) and len(inputs) == 1:
                return _mapb(lambda x: ~SBool.of(x), inputs[0])
            if ufunc in (np.logical_and, np.bitwise_and) and len(inputs) == 2:
                return _zipb(lambda a, b: SBool.of(a) & SBool.of(b), *_bool_operands(inputs))
            if ufunc in (np.logical_or, np.bitwise_or) and len(inputs) == 2:
                return _zipb(lambda a, b: SBool.of(a) | SBool.of(b), *_bool_operands(inputs))
            if ufunc in (np.logical_xor, np.bitwise_xor, np.not_equal) and len(inputs) == 2:
                return _zipb(lambda a, b: (SBool.of(a) & ~SBool.of(b)) | (~SBool.of(a) & SBool.of(b)), *_bool_operands(inputs))
            if ufunc is np.equal and len(inputs) == 2:
                return _zipb(lambda a, b: (SBool.of(a) & SBool.of(b)) | (~SBool.of(a) & ~SBool.of(b)), *_bool_operands(inputs))
        ins = tuple(np.asarray(x).view(np.ndarray) if isinstance(x, np.ndarray) else x for x in inputs)
        return _wrap(getattr(ufunc, method)(*ins, **kwargs)) if out is None else getattr(ufunc, method)(*ins, out=out, **kwargs)

    def __invert__(self):
        return _mapb(lambda x: ~SBool.of(x), self)

    def __and__(self, o):
        return _zipb(lambda a, b: SBool.of(a) & SBool.of(b), self, o)

    __rand__ = __and__

    def __or__(self, o):
        return _zipb(lambda a, b: SBool.of(a) | SBool.of(b), self, o)

    __ror__ = __or__

    def __bool__(self):
        if self.size != 1:
            raise ValueError("The truth value of an array with more than one element is ambiguous")
        return bool(self.reshape(-1)[0])

    def all(self, *a, **k):
        return _all(self)

    def any(self, *a, **k):
        return _any(self)

    @property
    def dtype(self):
        if _lying_frame():
            return np.dtype(bool)
        return _nd_dtype(self)


def _bool_operands(inputs):
    a, b = inputs
    if not isinstance(a, np.ndarray):
        a = np.broadcast_to(np.array(a, dtype=object), np.shape(b))
    if not isinstance(b, np.ndarray):
        b = np.broadcast_to(np.array(b, dtype=object), np.shape(a))
    return a, b


def _concrete_mask(k):
    out = np.empty(k.shape, dtype=bool)
    for idx in np.ndindex(k.shape):
        out[idx] = bool(_nd_getitem(k, idx))   # forks when symbolic
    return out


def _to_obj(data):
    a = np.empty(np.shape(data), dtype=object)
    if a.ndim == 0:
        a[()] = data
        return a
    for i, x in enumerate(data):
        a[i] = _to_obj(x) if a.ndim > 1 else x
    return a


def _wrap(r):
    if isinstance(r, np.ndarray):
        if _nd_dtype(r) == object and not isinstance(r, (SymNd, BoolNd)):
            flat = np.ndarray.reshape(r, -1)
            if flat.size and isinstance(flat[0], SBool):
                return r.view(BoolNd)
            return r.view(SymNd)
        return r
    if isinstance(r, tuple):
        return tuple(_wrap(x) for x in r)
    if isinstance(r, list):
        return [_wrap(x) for x in r]
    return r


def _map(f, a):
    a = np.asarray(a, dtype=object)
    out = np.empty(a.shape, dtype=object)
    fo = out.reshape(-1)
    fi = np.ndarray.reshape(a, -1)
    for i in range(fi.size):
        fo[i] = f(fi[i])
    return out.view(SymNd)


def _mapb(f, a):
    r = _map(f, a)
    return r.view(BoolNd)


def _zipb(f, a, b):
    a = np.asarray(a, dtype=object)
    b = np.asarray(b, dtype=object)
    shp = np.broadcast_shapes(a.shape, b.shape)
    a = np.broadcast_to(a, shp)
    b = np.broadcast_to(b, shp)
    out = np.empty(shp, dtype=object)
    for idx in np.ndindex(shp):
        out[idx] = f(a[idx], b[idx])
    return out.view(BoolNd)


def has_sym(a):
    if type(a) is Sym:
        return not a.is_const()
    if isinstance(a, np.ndarray):
        if _nd_dtype(a) != object:
            return False
        for x in np.ndarray.reshape(a, -1):
            if type(x) is Sym and not x.is_const():
                return True
            if isinstance(x, SBool) and x.k != "const":
                return True
        return False
    if isinstance(a, (list, tuple)):
        return any(has_sym(x) for x in a)
    return False


def is_concrete(a):
    return not has_sym(a)


def to_concrete(a):
    """object array without symbols -> float / complex ndarray"""
    if not isinstance(a, np.ndarray):
        if type(a) is Sym:
            return a.cval()
        if isinstance(a, (list, tuple)):
            return type(a)(to_concrete(x) for x in a)
        return a
    if _nd_dtype(a) != object:
        return np.asarray(a).view(np.ndarray)
    flat = [x.cval() if type(x) is Sym else (x.a if isinstance(x, SBool) else x) for x in np.ndarray.reshape(a, -1)]
    if any(isinstance(x, (complex, np.complexfloating)) for x in flat):
        out = np.array(flat, dtype=np.complex128)
    elif flat and all(isinstance(x, (bool, np.bool_)) for x in flat):
        out = np.array(flat, dtype=bool)
    elif flat and all(isinstance(x, (int, np.integer)) and not isinstance(x, (bool, np.bool_)) for x in flat):
        out = np.array(flat, dtype=np.int64)
    else:
        out = np.array(flat, dtype=np.float64)
    return out.reshape(a.shape)


# ----------------------------------------------------------------------------------------
# function overrides
# ----------------------------------------------------------------------------------------
def _where(c, a=None, b=None):
    if a is None:
        return np.where(_concrete_mask(np.asarray(c, dtype=object).view(BoolNd)))
    c = np.asarray(c, dtype=object)
    shp = np.broadcast_shapes(c.shape, np.shape(a), np.shape(b))
    c = np.broadcast_to(c, shp)
    a = np.broadcast_to(np.asarray(a, dtype=object), shp)
    b = np.broadcast_to(np.asarray(b, dtype=object), shp)
    out = np.empty(shp, dtype=object)
    for idx in np.ndindex(shp):
        out[idx] = ite(c[idx], a[idx], b[idx])
    return out.view(SymNd)


def _flat(a):
    return list(np.ndarray.reshape(np.asarray(a, dtype=object), -1))


def _any(a, axis=None, **kw):
    if axis is not None:
        raise NotImplementedError("any(axis)")
    r = s_or([SBool.of(x) for x in _flat(a)])
    return r.a if r.k == "const" else r


def _all(a, axis=None, **kw):
    if axis is not None:
        raise NotImplementedError("all(axis)")
    r = s_and([SBool.of(x) for x in _flat(a)])
    return r.a if r.k == "const" else r


def sabs(x):
    return abs(Sym.of(x))


def _abs(a, *k, **kw):
    if not isinstance(a, np.ndarray):
        return sabs(a)
    return _map(sabs, a)


def _isclose_scalar(a, b, rtol, atol):
    """numpy: |a - b| <= atol + rtol * |b|  (complex modulus for complex operands)"""
    a = Sym.of(a)
    b = Sym.of(b)
    d = a - b
    rt = Sym.of(rtol)
    if rt.is_const() and rt.cval() == 0:
        rhs = Sym.of(atol)
    else:
        rhs = Sym.of(atol) + rt * abs(b)
    if d.isreal():
        return abs(d) <= rhs
    # complex: re^2 + im^2 <= rhs^2 (rhs >= 0), exact and free of square roots
    sq = d.re_sym() * d.re_sym() + d.im_sym() * d.im_sym()
    r = (sq <= rhs * rhs)
    nonneg = rhs >= 0
    rb = SBool.of(r)
    if core.CTX.active and rb.k != "const" and rhs.isreal():
        # linear consequences of the modulus test, valid over the reals (they let the linear back end decide threshold claims
        # without expanding squares):  c := re^2 + im^2 <= rhs^2, rhs >= 0
        #   c  =>  |re| <= rhs and |im| <= rhs ;      |re|, |im| <= 0.7 rhs  =>  c      (0.49 + 0.49 <= 1)
        import z3 as _z3
        cz = rb.z3()
        rez, imz, rhz = d.re.z3(), d.im.z3(), rhs.re.z3()
        k7 = _z3.RealVal("7/10")
        core.CTX.add_def(_z3.And(
            _z3.Implies(_z3.And(cz, rhz >= 0), _z3.And(rez <= rhz, -rez <= rhz, imz <= rhz, -imz <= rhz)),
            _z3.Implies(_z3.And(rhz >= 0, rez <= k7 * rhz, -rez <= k7 * rhz, imz <= k7 * rhz, -imz <= k7 * rhz), cz)))
    return rb & SBool.of(nonneg)


def _isclose(a, b, rtol=1e-05, atol=1e-08, equal_nan=False):
    """numpy's documented formula |a-b| <= atol + rtol*|b|"""
    aa = np.asarray(a, dtype=object)
    bb = np.asarray(b, dtype=object)
    shp = np.broadcast_shapes(aa.shape, bb.shape)
    if shp == ():
        return _isclose_scalar(aa[()], bb[()], rtol, atol)
    aa = np.broadcast_to(aa, shp)
    bb = np.broadcast_to(bb, shp)
    out = np.empty(shp, dtype=object)
    for idx in np.ndindex(shp):
        out[idx] = _isclose_scalar(aa[idx], bb[idx], rtol, atol)
    return out.view(BoolNd)


def _allclose(a, b, rtol=1e-05, atol=1e-08, equal_nan=False):
    r = _isclose(a, b, rtol=rtol, atol=atol)
    if isinstance(r, np.ndarray):
        return _all(r)
    return r


def _array_equal(a, b, equal_nan=False):
    if np.shape(a) != np.shape(b):
        return False
    aa = _flat(a)
    bb = _flat(b)
    r = s_and([SBool.of(Sym.of(x) == y) for x, y in zip(aa, bb)])
    return r.a if r.k == "const" else r


def _sqrt(a, *k, **kw):
    if not isinstance(a, np.ndarray):
        return Sym.of(a).sqrt()
    return _map(lambda x: Sym.of(x).sqrt(), a)


def _log(a, *k, **kw):
    if not isinstance(a, np.ndarray):
        return Sym.of(a).log()
    return _map(lambda x: Sym.of(x).log(), a)


def _maximum(a, b, **kw):
    return _zip(lambda x, y: core.smax(x, y), a, b)


def _minimum(a, b, **kw):
    return _zip(lambda x, y: core.smin(x, y), a, b)


def _zip(f, a, b):
    a = np.asarray(a, dtype=object)
    b = np.asarray(b, dtype=object)
    shp = np.broadcast_shapes(a.shape, b.shape)
    if shp == ():
        return f(a[()], b[()])
    a = np.broadcast_to(a, shp)
    b = np.broadcast_to(b, shp)
    out = np.empty(shp, dtype=object)
    for idx in np.ndindex(shp):
        out[idx] = f(a[idx], b[idx])
    return out.view(SymNd)


def _real(a):
    if isinstance(a, SymNd):
        return a.real
    return Sym.of(a).real


def _imag(a):
    if isinstance(a, SymNd):
        return a.imag
    return Sym.of(a).imag


def _argmax(a, axis=None, **kw):
    """index of the first maximal entry as a CONCRETE integer: the comparisons fork the path (numpy returns the first maximum)"""
    if axis is not None:
        raise core.StubMiss("argmax(axis) on symbolic data")
    xs = _flat(a)
    if xs and all(isinstance(x, (SBool, bool, np.bool_)) for x in xs):
        # boolean entries: the index of the first True (0 if there is none) -- one fork per entry instead of one per pair
        for i, x in enumerate(xs):
            if bool(x):
                return i
        return 0
    for i in range(len(xs)):
        best = True
        for j in range(len(xs)):
            if j == i:
                continue
            # strictly greater than every earlier entry, at least as large as every later one
            c = (Sym.of(xs[i]) > xs[j]) if j < i else (Sym.of(xs[i]) >= xs[j])
            if not bool(c):
                best = False
                break
        if best:
            return i
    raise core.Infeasible()


def _argmin(a, axis=None, **kw):
    if axis is not None:
        raise core.StubMiss("argmin(axis) on symbolic data")
    return _argmax(_map(lambda x: -Sym.of(x), np.asarray(a, dtype=object)))


def _bincount(x, weights=None, minlength=0):
    """np.bincount on symbolic integer data: count_v = sum_i [x_i == v]; entries outside 0..minlength-1 are resolved by forking (numpy
    would enlarge the result / raise for negative entries)"""
    if weights is not None:
        raise core.StubMiss("bincount with weights on symbolic data")
    xs = _flat(x)
    n = int(minlength)
    for d in xs:
        if not bool(Sym.of(d) >= 0):
            raise ValueError("'list' argument must have no negative elements")
        if not bool(Sym.of(d) < n):
            raise core.StubMiss("bincount: symbolic entry beyond minlength")
    out = []
    for v in range(n):
        c = 0
        for d in xs:
            c = c + core.ite(Sym.of(d) == v, 1, 0)
        out.append(c)
    return SymNd(out)


def _count_nonzero(a, axis=None, **kw):
    tot = 0
    for x in _flat(a):
        tot = tot + ite(SBool.of(Sym.of(x) != 0) if not isinstance(x, SBool) else x, 1, 0)
    return tot


def _iscomplexobj(a):
    if isinstance(a, np.ndarray):
        return not _allreal(a)
    return type(a) is Sym and not a.isreal() or isinstance(a, (complex, np.complexfloating))


def _isrealobj(a):
    return not _iscomplexobj(a)


def _amax(a, axis=None, **kw):
    if axis is not None:
        raise NotImplementedError("max(axis)")
    xs = _flat(a)
    r = xs[0]
    for x in xs[1:]:
        r = core.smax(r, x)
    return r


def _amin(a, axis=None, **kw):
    if axis is not None:
        raise NotImplementedError("min(axis)")
    xs = _flat(a)
    r = xs[0]
    for x in xs[1:]:
        r = core.smin(r, x)
    return r


def _isnan(a, **kw):
    if isinstance(a, np.ndarray):
        return _mapb(lambda x: False, a)
    return False


def _norm(a, ord=None, axis=None, keepdims=False):
    if axis is not None or ord not in (None, 2, "fro"):
        raise NotImplementedError("norm variant")
    tot = 0
    for x in _flat(a):
        x = Sym.of(x)
        tot = tot + (x.re_sym() * x.re_sym() + x.im_sym() * x.im_sym())
    return Sym.of(tot).sqrt()


def _sum_abs2(a):
    tot = 0
    for x in _flat(a):
        x = Sym.of(x)
        tot = tot + (x.re_sym() * x.re_sym() + x.im_sym() * x.im_sym())
    return tot


def _inv(a):
    if is_concrete(a):
        return np.linalg.inv(to_concrete(a))
    n = a.shape[0]
    A = np.asarray(a, dtype=object)
    if a.shape == (n, n) and n > 3:
        sm = _scalar_multiple(A)
        if sm is not None:
            s, G = sm
            Gi = np.linalg.inv(G)
            inv_s = 1 / s
            return _map(lambda g: inv_s * g, SymNd(Gi.astype(object)))
    if a.shape != (n, n) or n > 3:
        raise core.StubMiss(f"symbolic inverse of {a.shape} matrix not modelled")
    if n == 1:
        return SymNd([[1 / Sym.of(A[0, 0])]])
    if n == 2:
        det = A[0, 0] * A[1, 1] - A[0, 1] * A[1, 0]
        return SymNd([[A[1, 1] / det, -A[0, 1] / det], [-A[1, 0] / det, A[0, 0] / det]])
    cof = np.empty((3, 3), dtype=object)
    for i in range(3):
        for j in range(3):
            r = [k for k in range(3) if k != i]
            c = [k for k in range(3) if k != j]
            m = A[r[0], c[0]] * A[r[1], c[1]] - A[r[0], c[1]] * A[r[1], c[0]]
            cof[i, j] = m if (i + j) % 2 == 0 else -m
    det = A[0, 0] * cof[0, 0] + A[0, 1] * cof[0, 1] + A[0, 2] * cof[0, 2]
    out = np.empty((3, 3), dtype=object)
    for i in range(3):
        for j in range(3):
            out[i, j] = cof[j, i] / det
    return out.view(SymNd)


def _scalar_multiple(A):
    """A == s * G with one real symbolic scalar s and a concrete matrix G (every entry a rational multiple of the first
    non-zero entry): returns (s, G) or None.  (s G)^-1 = (1/s) G^-1 needs no symbolic elimination."""
    piv = None
    for x in A.reshape(-1):
        x = Sym.of(x)
        if x.im.t:
            return None
        if x.re.t:
            piv = x
            break
    if piv is None or piv.is_const():
        return None
    (m0, c0), = list(piv.re.t.items())[:1]
    G = np.zeros(A.shape, dtype=float)
    for pos in np.ndindex(A.shape):
        x = Sym.of(A[pos])
        if x.im.t:
            return None
        if not x.re.t:
            continue
        c = x.re.t.get(m0)
        if c is None:
            return None
        f = c / c0
        d = x.re.add(piv.re.scale(-f))
        if d.t:
            return None
        G[pos] = float(f)
    return piv, G


def _conj(a, **kw):
    if isinstance(a, np.ndarray):
        return _map(lambda x: x.conjugate(), a)
    return Sym.of(a).conjugate()


def _uf1(name):
    def f(a, *k, **kw):
        if isinstance(a, np.ndarray):
            return _map(lambda x: f(x), a)
        a = Sym.of(a)
        if a.is_const():
            import math
            return {"log10": math.log10, "ceil": math.ceil}[name](a.cval())
        conc = {"log10": (lambda v: __import__("math").log10(v)), "ceil": (lambda v: float(__import__("math").ceil(v)))}[name]
        return core.CTX.def_uf(name, [a], concrete=conc)
    return f


OVERRIDES = {
    np.log10: _uf1("log10"), np.ceil: _uf1("ceil"),
    np.conjugate: _conj, np.conj: _conj,
    np.where: _where, np.any: _any, np.all: _all, np.abs: _abs, np.absolute: _abs,
    np.isclose: _isclose, np.allclose: _allclose, np.array_equal: _array_equal,
    np.sqrt: _sqrt, np.log: _log, np.maximum: _maximum, np.minimum: _minimum,
    np.real: _real, np.imag: _imag, np.count_nonzero: _count_nonzero, np.argmax: _argmax, np.argmin: _argmin, np.bincount: _bincount,
    np.iscomplexobj: _iscomplexobj, np.isrealobj: _isrealobj,
    np.max: _amax, np.min: _amin, np.amax: _amax, np.amin: _amin,
    np.linalg.norm: _norm, np.linalg.inv: _inv, np.isnan: _isnan,
}
UFUNC_OVERRIDES = {
    np.log10: _uf1("log10"), np.ceil: _uf1("ceil"),
    np.absolute: _abs, np.sqrt: _sqrt, np.log: _log, np.maximum: _maximum, np.minimum: _minimum,
    np.isnan: _isnan,
}
# functions that need a numeric dtype: run natively after converting symbol-free object arrays
CONCRETE_ONLY = set()
for _n in ("eig", "eigh", "eigvals", "eigvalsh", "pinv", "matrix_rank", "svd", "det", "solve", "cholesky", "qr", "lstsq", "matrix_power"):
    CONCRETE_ONLY.add(getattr(np.linalg, _n))
for _n in ("argmax", "argmin", "argsort", "sort", "round", "floor", "exp", "sin", "cos", "isfinite", "isinf", "nonzero", "unique", "cumsum", "prod", "mean", "std", "var", "histogram"):
    CONCRETE_ONLY.add(getattr(np, _n))


def _array_function(self, func, types_, args, kwargs):
    f = OVERRIDES.get(func)
    if f is not None:
        return f(*args, **kwargs)
    if func in CONCRETE_ONLY:
        if all(is_concrete(a) for a in args):
            # float results stay in the symbolic array world (they may be indexed by symbolic masks or mixed with symbols later)
            return _symbolic_result(func(*[to_concrete(a) for a in args], **kwargs))
        if func is np.cumsum:
            return _cumsum(*args, **kwargs)
        if func is np.mean:
            return _mean(*args, **kwargs)
        if func is np.prod:
            return _prod(*args, **kwargs)
        if func is np.nonzero:
            return _nonzero(*args, **kwargs)
        if func is np.linalg.matrix_power:
            return _matrix_power(*args, **kwargs)
        if func is np.linalg.solve:
            return _solve(*args, **kwargs)
        if func is np.sort:
            return _sort(*args, **kwargs)
        if func is np.argsort:
            return _argsort(*args, **kwargs)
        raise core.StubMiss(f"{getattr(func, '__name__', func)} called on symbolic data without a stub")
    r = np.ndarray.__array_function__(self, func, types_, args, kwargs)
    return _wrap(r)


def _symbolic_result(r):
    if not MODE["symbolic"]:
        return r
    if isinstance(r, np.ndarray) and r.dtype.kind in "fc" and r.ndim > 0:
        return SymNd(r.astype(object))
    if isinstance(r, tuple):
        return type(r)(*[_symbolic_result(x) for x in r]) if hasattr(r, "_fields") else tuple(_symbolic_result(x) for x in r)
    return r


def _nonzero(a):
    """indices of the true / non-zero entries as CONCRETE integers: the entries' tests fork the path"""
    A = np.asarray(a, dtype=object)
    mask = np.empty(A.shape, dtype=bool)
    for idx in np.ndindex(A.shape):
        x = A[idx]
        mask[idx] = bool(x) if isinstance(x, (SBool, bool, np.bool_)) else bool(Sym.of(x) != 0)
    return np.nonzero(mask)


def _matrix_power(a, n):
    if not isinstance(n, (int, np.integer)) or n < 0:
        raise core.StubMiss("matrix_power with a negative or non-integer exponent on symbolic data")
    A = np.asarray(a, dtype=object)
    out = np.eye(A.shape[0]).astype(object)
    for _ in range(int(n)):
        out = out @ A
    return _wrap(out)


def _prod(a, axis=None, **kw):
    if axis is not None:
        raise core.StubMiss("prod(axis) on symbolic data")
    tot = 1
    for x in _flat(a):
        tot = tot * x
    return tot


def _solve(a, b, **kw):
    """solve(a, b) == inv(a) @ b (exact arithmetic; a concrete or small symbolic, see _inv)"""
    ai = np.linalg.inv(to_concrete(a)).astype(object) if is_concrete(a) else np.asarray(_inv(a if isinstance(a, SymNd) else SymNd(a)), dtype=object)
    return _wrap(ai @ np.asarray(b, dtype=object))


def _argsort(a, axis=-1, kind=None, **kw):
    """stable ascending order as CONCRETE indices: the comparisons fork the path (real entries, one axis)"""
    A = np.asarray(a, dtype=object)
    if A.ndim != 1:
        raise core.StubMiss("argsort of a symbolic array with more than one axis")
    xs = list(A)
    order = []
    for i in range(len(xs)):            # insertion: position of entry i among the earlier ones (ties keep the input order)
        k = len(order)
        while k > 0 and bool(Sym.of(xs[i]) < xs[order[k - 1]]):
            k -= 1
        order.insert(k, i)
    return np.array(order, dtype=np.intp)


def _sort(a, axis=-1, **kw):
    A = np.asarray(a, dtype=object)
    return SymNd([A[i] for i in _argsort(A)])


def _cumsum(a, axis=None, **kw):
    xs = _flat(a)
    out = []
    tot = 0
    for x in xs:
        tot = tot + x
        out.append(tot)
    return SymNd(out)


def _mean(a, axis=None, **kw):
    if axis is not None:
        raise NotImplementedError("mean(axis)")
    xs = _flat(a)
    tot = 0
    for x in xs:
        tot = tot + x
    return tot / len(xs)


# ----------------------------------------------------------------------------------------
# scipy.sparse boundary: sparse @ SymNd is computed with the same stored table, densely
# ----------------------------------------------------------------------------------------
_orig_mm = _spbase_mod._spbase._matmul_dispatch
_orig_rmm = getattr(_spbase_mod._spbase, "_rmatmul_dispatch", None)


def _mm(self, other):
    if isinstance(other, (SymNd,)) or (isinstance(other, np.ndarray) and _nd_dtype(other) == object):
        return (self.toarray().astype(object) @ np.asarray(other, dtype=object)).view(SymNd)
    return _orig_mm(self, other)


def _rmm(self, other):
    if isinstance(other, (SymNd,)) or (isinstance(other, np.ndarray) and _nd_dtype(other) == object):
        return (np.asarray(other, dtype=object) @ self.toarray().astype(object)).view(SymNd)
    return _orig_rmm(self, other)


_spbase_mod._spbase._matmul_dispatch = _mm
if _orig_rmm is not None:
    _spbase_mod._spbase._rmatmul_dispatch = _rmm


# ----------------------------------------------------------------------------------------
# numpy proxy installed as the module-global `np` of quara modules under analysis
# ----------------------------------------------------------------------------------------
_UFUNC_FOLDS = {"add": lambda x, y: x + y, "multiply": lambda x, y: x * y, "subtract": lambda x, y: x - y,
                "maximum": lambda x, y: _maximum(x, y), "minimum": lambda x, y: _minimum(x, y)}


def _ufunc_method(f, method, symbolic_impl, operands, kw):
    """ufunc.reduce / outer / accumulate: the real numpy method unless symbolic data are involved; `out=` is honoured (the result is
    written into it); other keyword arguments (dtype, where, initial, keepdims) are only supported on the numpy route"""
    native = getattr(f, method)
    out = kw.get("out")
    if not MODE["symbolic"]:
        return native(*operands, **kw)
    if all(is_concrete(x) for x in operands) and (out is None or _nd_dtype(out) != object):
        return _symbolic_result(native(*[to_concrete(x) for x in operands], **kw))
    extra = {k: v for k, v in kw.items() if k not in ("out", "axis") and v is not None}
    if "dtype" in extra and np.dtype(extra["dtype"]).kind in "fcO":
        del extra["dtype"]              # exact arithmetic: a floating / complex / object result type changes nothing
    if extra:
        raise core.StubMiss(f"ufunc.{method} with {sorted(extra)} on symbolic data")
    r = symbolic_impl()
    if out is None:
        return r
    if _nd_dtype(out) != object:
        raise core.StubMiss("numeric out= array with symbolic operands")
    out[...] = np.asarray(r, dtype=object)
    return out


def _ufunc_reduce(n, a, axis=0):
    """np.<ufunc>.reduce along one axis (default 0, like numpy), python-level fold"""
    A = np.asarray(a, dtype=object)
    op = _UFUNC_FOLDS[n]
    if axis is None:
        xs = list(A.reshape(-1))
        tot = xs[0]
        for x in xs[1:]:
            tot = op(tot, x)
        return tot
    M = np.moveaxis(A, axis, 0)
    tot = M[0]
    for k in range(1, M.shape[0]):
        tot = op(tot, M[k]) if n in ("add", "multiply", "subtract") else _wrap(np.array([op(u, v) for u, v in zip(np.reshape(tot, -1), M[k].reshape(-1))], dtype=object).reshape(M[k].shape))
    return _wrap(tot) if isinstance(tot, np.ndarray) else tot


def _ufunc_outer(n, a, b):
    A, Bv = np.asarray(a, dtype=object), np.asarray(b, dtype=object)
    op = _UFUNC_FOLDS[n]
    out = np.empty(A.shape + Bv.shape, dtype=object)
    for i in np.ndindex(A.shape):
        for j in np.ndindex(Bv.shape):
            out[i + j] = op(A[i], Bv[j])
    return _wrap(out)


def _ufunc_accumulate(n, a, axis=0):
    A = np.asarray(a, dtype=object)
    if A.ndim != 1:
        raise core.StubMiss("ufunc.accumulate on a symbolic array with more than one axis")
    op = _UFUNC_FOLDS[n]
    out = [A[0]]
    for x in A[1:]:
        out.append(op(out[-1], x))
    return SymNd(out)


class _LinalgProxy(types.ModuleType):
    def __init__(self):
        super().__init__("symq_linalg_proxy")

    def __getattr__(self, n):
        return getattr(np.linalg, n)


class NpProxy(types.ModuleType):
    """delegates to numpy; array *creation* returns SymNd while symbolic mode is on"""

    def __init__(self):
        super().__init__("symq_np_proxy")
        self.linalg = _LinalgProxy()

    def __getattr__(self, n):
        f = getattr(np, n)
        if not callable(f) or isinstance(f, type):
            return f
        ov = OVERRIDES.get(f)

        def wrapped(*a, **kw):
            if not MODE["symbolic"]:
                return f(*a, **kw)
            # numpy dispatches on SymNd arguments by itself; bare symbolic scalars need help, and results
            # assembled from python lists of symbolic arrays come back as plain object arrays
            if ov is not None and (any(type(x) is Sym or isinstance(x, SBool) for x in a) or any(type(x) is Sym for x in kw.values())
                                   or any(isinstance(x, (list, tuple)) and has_sym(x) for x in a)):
                return ov(*a, **kw)
            return _wrap(f(*a, **kw))
        wrapped.__name__ = n
        if isinstance(f, np.ufunc) and n in _UFUNC_FOLDS:
            wrapped.reduce = lambda a, axis=0, **kw: _ufunc_method(f, "reduce", lambda: _ufunc_reduce(n, a, axis), (a,), dict(kw, axis=axis))
            wrapped.outer = lambda a, b, **kw: _ufunc_method(f, "outer", lambda: _ufunc_outer(n, a, b), (a, b), kw)
            wrapped.accumulate = lambda a, axis=0, **kw: _ufunc_method(f, "accumulate", lambda: _ufunc_accumulate(n, a, axis), (a,), dict(kw, axis=axis))
            wrapped.at = f.at
        return wrapped

    def _mk(self, r):
        if MODE["symbolic"] and isinstance(r, np.ndarray) and r.dtype.kind in "fc":
            return SymNd(r.astype(object))
        return r

    def zeros(self, shape, dtype=float, **kw):
        return self._mk(np.zeros(shape, dtype=dtype, **kw))

    def ones(self, shape, dtype=float, **kw):
        return self._mk(np.ones(shape, dtype=dtype, **kw))

    def empty(self, shape, dtype=float, **kw):
        return self._mk(np.zeros(shape, dtype=dtype, **kw))

    def full(self, shape, fill_value, dtype=None, **kw):
        if has_sym(fill_value):
            a = np.empty(shape, dtype=object)
            a[...] = fill_value
            return a.view(SymNd)
        return self._mk(np.full(shape, fill_value, dtype=dtype, **kw))

    def eye(self, *a, **kw):
        return self._mk(np.eye(*a, **kw))

    def mean(self, a, *args, **kw):
        if MODE["symbolic"] and (has_sym(a) or _contains_symnd(a)):
            kw.pop("dtype", None)
            return _mean(_stack_obj(a) if not isinstance(a, np.ndarray) else a, *args, **kw)
        return np.mean(a, *args, **kw)

    def sum(self, a, *args, **kw):
        # np.sum(list of symbolic scalars, dtype=np.float64): the dtype request would realise the symbols
        if MODE["symbolic"] and (has_sym(a) or _contains_symnd(a)) and not isinstance(a, SymNd):
            kw.pop("dtype", None)
            return _wrap(np.sum(_stack_obj(a), *args, **kw))
        if MODE["symbolic"] and isinstance(a, SymNd):
            kw.pop("dtype", None)
        return _wrap(np.sum(a, *args, **kw))

    def identity(self, n, dtype=float, **kw):
        return self._mk(np.identity(n, dtype=dtype, **kw))

    def zeros_like(self, a, dtype=None, **kw):
        if isinstance(a, SymNd):
            return SymNd(np.zeros(a.shape, dtype=np.complex128 if not _allreal(a) else np.float64).astype(object))
        return self._mk(np.zeros_like(a, dtype=dtype, **kw))

    def array(self, obj, dtype=None, **kw):
        if MODE["symbolic"]:
            if isinstance(obj, SymNd):
                return obj.copy()
            if has_sym(obj) or _contains_symnd(obj):
                return SymNd(_stack_obj(obj))
            r = np.array(obj, dtype=dtype, **kw)
            return self._mk(r)
        return np.array(obj, dtype=dtype, **kw)

    def asarray(self, obj, dtype=None, **kw):
        if MODE["symbolic"]:
            if isinstance(obj, SymNd):
                return obj
            if has_sym(obj) or _contains_symnd(obj):
                return SymNd(_stack_obj(obj))
        return np.asarray(obj, dtype=dtype, **kw)


def _contains_symnd(obj):
    if isinstance(obj, SymNd):
        return True
    if isinstance(obj, (list, tuple)):
        return any(_contains_symnd(x) for x in obj)
    return False


def _stack_obj(obj):
    """np.array(nested lists / arrays of symbols) as an object array of scalars"""
    if isinstance(obj, np.ndarray):
        return np.asarray(obj, dtype=object)
    if isinstance(obj, (list, tuple)):
        parts = [_stack_obj(x) for x in obj]
        if parts and all(isinstance(p, np.ndarray) for p in parts):
            shp = parts[0].shape
            out = np.empty((len(parts),) + shp, dtype=object)
            for i, p in enumerate(parts):
                out[i] = p
            return out
        out = np.empty(len(parts), dtype=object)
        for i, p in enumerate(parts):
            out[i] = p
        return out
    return obj


PROXY = NpProxy()
_installed = {}


def install(modules, type_shim=False):
    for m in modules:
        if m.__name__ not in _installed:
            _installed[m.__name__] = (m, m.__dict__.get("np"), m.__dict__.get("type", None))
        m.np = PROXY
        if type_shim:
            m.type = symtype


def uninstall():
    for name, (m, orig_np, orig_type) in _installed.items():
        if orig_np is not None:
            m.np = orig_np
        if orig_type is None:
            m.__dict__.pop("type", None)
        else:
            m.type = orig_type
    _installed.clear()


def symtype(x):
    """module-global `type` shim: quara tests `type(v) != float` on values we keep symbolic"""
    if type(x) is Sym:
        return int if x.isint else float
    return builtins.type(x)


class symbolic_mode:
    def __enter__(self):
        MODE["symbolic"] = True
        return self

    def __exit__(self, *a):
        MODE["symbolic"] = False
        return False


def symvec(prefix, n, lo=None, hi=None):
    return SymNd([core.sym_real(f"{prefix}{i}", lo, hi) for i in range(n)])


def symmat(prefix, r, c, lo=None, hi=None):
    return SymNd([[core.sym_real(f"{prefix}{i}_{j}", lo, hi) for j in range(c)] for i in range(r)])
