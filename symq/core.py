"""symq.core -- symbolic scalars, formulas, path explorer.

Scalars are sparse multivariate polynomials over Q in *atoms*.  Atoms are input symbols or
definitional symbols (ite / abs / division / sqrt / log / uninterpreted function application /
floor-division), each carrying its defining side constraint and a concrete evaluator so that a
solver model can be replayed and the symbolic run can be validated against a concrete run.

Design rules
* python / numpy floats enter as the exact rational value of the double;
* every z3 term produced here is *linear* over atoms and "monomial variables": a non-linear
  monomial x*y is represented by the z3 variable  mono!x*y ; the exact meaning
  (mono == x*y) is a separate constraint list that a query may include (exact NRA) or omit
  (monomial relaxation, sound for `unsat`);
* SBool.__bool__ forks the path (decided on the relaxed path condition, unknown = feasible).
"""
from __future__ import annotations
import math, time, itertools
from fractions import Fraction
import numpy as np
import z3

F0 = Fraction(0)
THRESH_CONSTS = (1e-10, 1e-8, 1e-6)
NORMALISE_DIV = True
F1 = Fraction(1)
_FLOAT_CACHE: dict = {}


def frac(x) -> Fraction:
    """exact rational value of a python/numpy real number"""
    if type(x) is Fraction:
        return x
    if type(x) is int:
        return Fraction(x)
    try:
        return _FLOAT_CACHE[x]
    except (KeyError, TypeError):
        pass
    if isinstance(x, (bool, np.bool_)):
        return Fraction(int(x))
    if isinstance(x, (int, np.integer)):
        return Fraction(int(x))
    fx = float(x)
    if math.isnan(fx) or math.isinf(fx):
        raise NonFinite(f"non-finite constant {fx}")
    r = Fraction(fx)
    if len(_FLOAT_CACHE) < 200000:
        _FLOAT_CACHE[x] = r
    return r


class NonFinite(Exception):
    pass


class Realised(TypeError):
    """a symbolic scalar was forced to a concrete float/int by code we do not model"""


class Infeasible(BaseException):
    pass


class Budget(BaseException):
    pass


class Outside(BaseException):
    """the run left the stated bounds of the obligation (e.g. a loop deeper than the unrolled depth): the path is recorded as
    outside the claim, it is neither a pass nor a failure of what is claimed"""


class StubMiss(BaseException):
    """a contract stub was called on something it cannot answer for (inconclusive path)"""


# ----------------------------------------------------------------------------------------
# atoms
# ----------------------------------------------------------------------------------------
class Atom:
    __slots__ = ("id", "name", "kind", "lo", "hi", "ev", "z3v")

    def __init__(self, id, name, kind, lo=None, hi=None, ev=None):
        self.id = id
        self.name = name
        self.kind = kind  # 'real' | 'int'
        self.lo = lo
        self.hi = hi
        self.ev = ev  # evaluator(env) for definitional atoms
        self.z3v = z3.Int(name) if kind == "int" else z3.Real(name)


class Registry:
    def __init__(self):
        self.by_name = {}
        self.atoms = []

    def get(self, name, kind="real", lo=None, hi=None, ev=None) -> Atom:
        a = self.by_name.get(name)
        if a is None:
            a = Atom(len(self.atoms), name, kind, lo, hi, ev)
            self.atoms.append(a)
            self.by_name[name] = a
        else:
            if ev is not None:
                a.ev = ev
            if lo is not None:
                a.lo = lo
            if hi is not None:
                a.hi = hi
        return a


REG = Registry()


def reset_registry():
    global REG
    REG = Registry()
    _MONO_Z3.clear()


# ----------------------------------------------------------------------------------------
# polynomials
# ----------------------------------------------------------------------------------------
_MONO_Z3: dict = {}


def mono_z3(m):
    """z3 variable standing for the non-linear monomial m (tuple of atom ids, sorted)"""
    v = _MONO_Z3.get(m)
    if v is None:
        name = "mono!" + "*".join(REG.atoms[i].name for i in m)
        allint = all(REG.atoms[i].kind == "int" for i in m)
        v = z3.Int(name) if allint else z3.Real(name)
        _MONO_Z3[m] = v
    return v


def mono_def(m):
    """exact meaning of the monomial variable"""
    e = None
    for i in m:
        a = REG.atoms[i].z3v
        e = a if e is None else e * a
    return mono_z3(m) == e


def _rv(fr: Fraction):
    if fr.denominator == 1:
        return z3.RealVal(fr.numerator)
    return z3.RealVal(str(fr.numerator) + "/" + str(fr.denominator))


class Poly:
    __slots__ = ("t",)

    def __init__(self, t=None):
        self.t = t if t is not None else {}

    @staticmethod
    def const(c):
        c = frac(c)
        return Poly({(): c}) if c != 0 else Poly()

    @staticmethod
    def atom(a: Atom):
        return Poly({(a.id,): F1})

    def is_const(self):
        t = self.t
        return not t or (len(t) == 1 and () in t)

    def cval(self) -> Fraction:
        return self.t.get((), F0)

    def is_zero(self):
        return not self.t

    def degree(self):
        return max((len(m) for m in self.t), default=0)

    def atoms(self):
        s = set()
        for m in self.t:
            s.update(m)
        return s

    def add(self, o: "Poly"):
        if not o.t:
            return self
        if not self.t:
            return o
        a, b = (self.t, o.t) if len(self.t) >= len(o.t) else (o.t, self.t)
        t = dict(a)
        for k, v in b.items():
            nv = t.get(k)
            if nv is None:
                t[k] = v
            else:
                nv = nv + v
                if nv == 0:
                    del t[k]
                else:
                    t[k] = nv
        return Poly(t)

    def neg(self):
        return Poly({k: -v for k, v in self.t.items()})

    def sub(self, o):
        if not o.t:
            return self
        t = dict(self.t)
        for k, v in o.t.items():
            nv = t.get(k)
            if nv is None:
                t[k] = -v
            else:
                nv = nv - v
                if nv == 0:
                    del t[k]
                else:
                    t[k] = nv
        return Poly(t)

    def scale(self, f: Fraction):
        if f == 0 or not self.t:
            return ZERO
        if f == 1:
            return self
        return Poly({k: v * f for k, v in self.t.items()})

    def mul(self, o: "Poly"):
        if not self.t or not o.t:
            return ZERO
        if len(o.t) == 1 and () in o.t:
            return self.scale(o.t[()])
        if len(self.t) == 1 and () in self.t:
            return o.scale(self.t[()])
        t = {}
        for k1, v1 in self.t.items():
            for k2, v2 in o.t.items():
                if not k1:
                    k = k2
                elif not k2:
                    k = k1
                else:
                    k = tuple(sorted(k1 + k2))
                nv = t.get(k)
                if nv is None:
                    t[k] = v1 * v2
                else:
                    nv = nv + v1 * v2
                    if nv == 0:
                        del t[k]
                    else:
                        t[k] = nv
        return Poly(t)

    # -- to solver ----------------------------------------------------------------
    def z3(self):
        ctx = CTX
        terms = []
        for m, c in self.t.items():
            if not m:
                terms.append(_rv(c))
                continue
            if len(m) == 1:
                v = REG.atoms[m[0]].z3v
            else:
                v = mono_z3(m)
                ctx.note_mono(m)
            if v.is_int():
                v = z3.ToReal(v)
            terms.append(v if c == 1 else _rv(c) * v)
        if not terms:
            return z3.RealVal(0)
        if len(terms) == 1:
            return terms[0]
        return z3.Sum(terms)

    def eval(self, env: "Env"):
        tot = 0
        for m, c in self.t.items():
            v = c
            for i in m:
                v = v * env.value(i)
            tot = tot + v
        return tot

    def __repr__(self):
        if not self.t:
            return "0"
        out = []
        for m, c in sorted(self.t.items(), key=lambda kv: (len(kv[0]), kv[0])):
            cs = f"{float(c):.6g}"
            out.append(cs if not m else cs + "*" + "*".join(REG.atoms[i].name for i in m))
        return " + ".join(out)


def pkey(p: "Poly"):
    return frozenset(p.t.items())


def bkey(b: "SBool"):
    k = b.k
    if k == "const":
        return ("c", b.a)
    if k == "cmp":
        return ("m", b.a, pkey(b.b))
    if k in ("and", "or"):
        return (k, tuple(bkey(x) for x in b.a))
    if k == "not":
        return ("n", bkey(b.a))
    return ("z", id(b))


ZERO = Poly()
ONE = Poly({(): F1})


# ----------------------------------------------------------------------------------------
# boolean formulas
# ----------------------------------------------------------------------------------------
class SBool:
    """formula tree: ('cmp', op, Poly) meaning  Poly op 0 ; ('and'|'or', [..]) ; ('not', x) ;
    ('const', bool) ; ('z3', expr, evaluator) for foreign formulas"""
    __slots__ = ("k", "a", "b", "_z")
    __array_ufunc__ = None

    def __init__(self, k, a=None, b=None):
        self.k = k
        self.a = a
        self.b = b
        self._z = None

    # construction helpers -----------------------------------------------------------
    @staticmethod
    def const(v):
        return SBool("const", bool(v))

    @staticmethod
    def of(o):
        if isinstance(o, SBool):
            return o
        if isinstance(o, (bool, np.bool_)):
            return SBool("const", bool(o))
        if isinstance(o, (Sym,)):
            return o != 0
        if isinstance(o, (int, float, np.integer, np.floating)):
            return SBool("const", bool(o))
        raise TypeError(f"cannot make formula from {type(o)}")

    def is_const(self):
        return self.k == "const"

    def z3(self):
        if self._z is not None:
            return self._z
        k = self.k
        if k == "const":
            z = z3.BoolVal(self.a)
        elif k == "cmp":
            e = self.b.z3()
            zero = z3.RealVal(0)
            op = self.a
            z = (e < zero if op == "lt" else e <= zero if op == "le" else e > zero if op == "gt"
                 else e >= zero if op == "ge" else e == zero if op == "eq" else e != zero)
        elif k == "and":
            z = z3.And([x.z3() for x in self.a]) if self.a else z3.BoolVal(True)
        elif k == "or":
            z = z3.Or([x.z3() for x in self.a]) if self.a else z3.BoolVal(False)
        elif k == "not":
            z = z3.Not(self.a.z3())
        elif k == "z3":
            z = self.a
        else:
            raise AssertionError(k)
        self._z = z
        return z

    def eval(self, env) -> bool:
        k = self.k
        if k == "const":
            return self.a
        if k == "cmp":
            v = self.b.eval(env)
            op = self.a
            return (v < 0 if op == "lt" else v <= 0 if op == "le" else v > 0 if op == "gt"
                    else v >= 0 if op == "ge" else v == 0 if op == "eq" else v != 0)
        if k == "and":
            return all(x.eval(env) for x in self.a)
        if k == "or":
            return any(x.eval(env) for x in self.a)
        if k == "not":
            return not self.a.eval(env)
        if k == "z3":
            return self.b(env)
        raise AssertionError(k)

    def tighten(self, margin, neg=False):
        """a formula implying self (resp. its negation when neg) with every inequality pulled `margin` inside;
        used only to look for counterexamples that survive floating-point replay"""
        k = self.k
        if k == "const":
            return SBool("const", (not self.a) if neg else self.a)
        if k == "not":
            return self.a.tighten(margin, not neg)
        if k in ("and", "or"):
            parts = [x.tighten(margin, neg) for x in self.a]
            kk = k if not neg else ("or" if k == "and" else "and")
            return s_and(parts) if kk == "and" else s_or(parts)
        if k == "cmp":
            op = self.a
            if neg:
                op = {"lt": "ge", "le": "gt", "gt": "le", "ge": "lt", "eq": "ne", "ne": "eq"}[op]
            m = Poly.const(margin)
            if op in ("lt", "le"):
                return _cmp0(self.b.add(m), "le")
            if op in ("gt", "ge"):
                return _cmp0(self.b.sub(m), "ge")
            if op == "ne":
                return s_or([_cmp0(self.b.add(m), "le"), _cmp0(self.b.sub(m), "ge")])
            return SBool("cmp", "eq", self.b)
        return (~self) if neg else self

    def __invert__(self):
        if self.k == "const":
            return SBool("const", not self.a)
        if self.k == "not":
            return self.a
        return SBool("not", self)

    def __and__(self, o):
        o = SBool.of(o)
        if self.k == "const":
            return o if self.a else self
        if o.k == "const":
            return self if o.a else o
        return SBool("and", [self, o])

    __rand__ = __and__

    def __or__(self, o):
        o = SBool.of(o)
        if self.k == "const":
            return self if self.a else o
        if o.k == "const":
            return o if o.a else self
        return SBool("or", [self, o])

    __ror__ = __or__

    def __xor__(self, o):
        o = SBool.of(o)
        return (self & ~o) | (~self & o)

    __rxor__ = __xor__

    def __eq__(self, o):
        if isinstance(o, (SBool, bool, np.bool_)):
            return ~(self ^ SBool.of(o))
        return NotImplemented

    def __ne__(self, o):
        if isinstance(o, (SBool, bool, np.bool_)):
            return self ^ SBool.of(o)
        return NotImplemented

    __hash__ = None

    def __bool__(self):
        if self.k == "const":
            return self.a
        return CTX.branch(self)

    def __repr__(self):
        if self.k == "const":
            return str(self.a)
        if self.k == "cmp":
            return f"({self.b} {self.a} 0)"
        return f"SBool<{self.k}>"

    def __format__(self, spec):
        return repr(self)


TRUE = SBool("const", True)
FALSE = SBool("const", False)


def s_and(xs):
    xs = [SBool.of(x) for x in xs]
    out = []
    for x in xs:
        if x.k == "const":
            if not x.a:
                return FALSE
            continue
        out.append(x)
    if not out:
        return TRUE
    return out[0] if len(out) == 1 else SBool("and", out)


def s_or(xs):
    xs = [SBool.of(x) for x in xs]
    out = []
    for x in xs:
        if x.k == "const":
            if x.a:
                return TRUE
            continue
        out.append(x)
    if not out:
        return FALSE
    return out[0] if len(out) == 1 else SBool("or", out)


def implies(a, b):
    return (~SBool.of(a)) | SBool.of(b)


def iff(a, b):
    a = SBool.of(a)
    b = SBool.of(b)
    return (a & b) | (~a & ~b)


# ----------------------------------------------------------------------------------------
# scalars
# ----------------------------------------------------------------------------------------
_REAL_TYPES = (int, float, np.integer, np.floating, bool, np.bool_, Fraction)
_CPLX_TYPES = (complex, np.complexfloating)


class Sym:
    """complex-valued symbolic scalar (re, im polynomials).  `isint` marks integer-valued terms
    (integer atoms, integer coefficients) for // % and __index__."""
    __slots__ = ("re", "im", "isint")
    __array_ufunc__ = None
    __array_priority__ = 1000

    def __init__(self, re, im=ZERO, isint=False):
        self.re = re
        self.im = im
        self.isint = isint

    # -- lifting -------------------------------------------------------------------------
    @staticmethod
    def of(o):
        t = type(o)
        if t is Sym:
            return o
        if t is list or t is tuple:
            return NotImplemented
        if t is float or t is int or t is np.float64:
            return Sym(Poly.const(o), ZERO, t is int)
        if isinstance(o, _CPLX_TYPES):
            return Sym(Poly.const(o.real), Poly.const(o.imag))
        if isinstance(o, _REAL_TYPES):
            return Sym(Poly.const(o), ZERO, isinstance(o, (int, np.integer)) and not isinstance(o, (bool, np.bool_)))
        if isinstance(o, SBool):
            return ite(o, 1, 0)
        if isinstance(o, np.ndarray) and o.ndim == 0:
            return Sym.of(o.item())
        return NotImplemented

    def isreal(self):
        return not self.im.t

    def is_const(self):
        return self.re.is_const() and self.im.is_const()

    def cval(self):
        if self.im.t:
            return complex(float(self.re.cval()), float(self.im.cval()))
        if self.isint:
            return int(self.re.cval())
        return float(self.re.cval())

    # -- arithmetic ------------------------------------------------------------------------
    def __add__(self, o):
        if isinstance(o, np.ndarray):
            return _bcast(self, o, lambda a, b: a + b)
        o = Sym.of(o)
        if o is NotImplemented:
            return o
        return Sym(self.re.add(o.re), self.im.add(o.im), self.isint and o.isint)

    __radd__ = __add__

    def __neg__(self):
        return Sym(self.re.neg(), self.im.neg(), self.isint)

    def __pos__(self):
        return self

    def __sub__(self, o):
        if isinstance(o, np.ndarray):
            return _bcast(self, o, lambda a, b: a - b)
        o = Sym.of(o)
        if o is NotImplemented:
            return o
        return Sym(self.re.sub(o.re), self.im.sub(o.im), self.isint and o.isint)

    def __rsub__(self, o):
        if isinstance(o, np.ndarray):
            return _bcast(self, o, lambda a, b: b - a)
        o = Sym.of(o)
        if o is NotImplemented:
            return o
        return o - self

    def __mul__(self, o):
        t = type(o)
        if t is float or t is np.float64 or t is int:
            f = frac(o)
            return Sym(self.re.scale(f), self.im.scale(f), self.isint and t is int)
        if isinstance(o, np.ndarray):
            return _bcast(self, o, lambda a, b: a * b)
        if _is_sparse(o):
            return _bcast(self, o.toarray(), lambda a, b: a * b)
        o = Sym.of(o)
        if o is NotImplemented:
            return o
        if not self.im.t and not o.im.t:
            return Sym(self.re.mul(o.re), ZERO, self.isint and o.isint)
        return Sym(self.re.mul(o.re).sub(self.im.mul(o.im)), self.re.mul(o.im).add(self.im.mul(o.re)))

    __rmul__ = __mul__

    def __truediv__(self, o):
        if isinstance(o, np.ndarray):
            return _bcast(self, o, lambda a, b: a / b)
        o = Sym.of(o)
        if o is NotImplemented:
            return o
        if o.is_const():
            if o.isreal():
                c = o.re.cval()
                if c == 0:
                    raise ZeroDivisionError("division of symbolic scalar by constant zero")
                f = 1 / c
                return Sym(self.re.scale(f), self.im.scale(f))
            d = o.re.cval() ** 2 + o.im.cval() ** 2
            return self * Sym(Poly.const(o.re.cval() / d), Poly.const(-o.im.cval() / d))
        if not o.isreal():
            den = o.re.mul(o.re).add(o.im.mul(o.im))
            num = self * o.conjugate()
            return Sym(_div(num.re, den), _div(num.im, den))
        return Sym(_div(self.re, o.re), _div(self.im, o.re))

    def __rtruediv__(self, o):
        if isinstance(o, (list, tuple)):
            o = np.asarray(o, dtype=object)       # numpy scalars accept list operands the same way
        if isinstance(o, np.ndarray):
            r = _bcast(self, o, lambda a, b: b / a)
            if not self.is_const() and self.isreal():
                # array / (its own sum): record the valid lemma sum(quotients) == 1
                try:
                    num = [Sym.of(x) for x in np.ndarray.reshape(np.asarray(o, dtype=object), -1)]
                    quo = [Sym.of(x) for x in np.ndarray.reshape(r, -1)]
                    if all(x.isreal() for x in num):
                        CTX.lemma_normalised([q.re for q in quo], [x.re for x in num], self.re)
                except Exception:
                    pass
            return r
        o = Sym.of(o)
        if o is NotImplemented:
            return o
        return o / self

    def __floordiv__(self, o):
        o = Sym.of(o)
        return _floordivmod(self, o)[0]

    def __rfloordiv__(self, o):
        return _floordivmod(Sym.of(o), self)[0]

    def __mod__(self, o):
        return _floordivmod(self, Sym.of(o))[1]

    def __rmod__(self, o):
        return _floordivmod(Sym.of(o), self)[1]

    def __divmod__(self, o):
        return _floordivmod(self, Sym.of(o))

    def __rdivmod__(self, o):
        return _floordivmod(Sym.of(o), self)

    def __pow__(self, k):
        if isinstance(k, Sym):
            if not k.is_const():
                raise NotImplementedError("symbolic exponent")
            k = k.cval()
        if isinstance(k, (float, np.floating)) and float(k) == int(k):
            k = int(k)
        if isinstance(k, (float, np.floating)) and float(k) == 0.5:
            return self.sqrt()
        if not isinstance(k, (int, np.integer)):
            raise NotImplementedError(f"power {k}")
        k = int(k)
        if k < 0:
            return 1 / (self ** (-k))
        r = Sym(ONE, ZERO, True)
        for _ in range(k):
            r = r * self
        return r

    def __rpow__(self, b):
        if self.is_const():
            return b ** self.cval()
        raise NotImplementedError("symbolic exponent")

    def conjugate(self):
        if not self.im.t:
            return self
        return Sym(self.re, self.im.neg())

    conj = conjugate

    @property
    def real(self):
        return Sym(self.re, ZERO, self.isint) if self.im.t else self

    @property
    def imag(self):
        return Sym(self.im)

    def astype(self, dt):
        return self

    def item(self):
        return self

    def copy(self):
        return self

    def __deepcopy__(self, memo):
        return self

    def __copy__(self):
        return self

    def __reduce__(self):
        raise TypeError("symbolic scalars are not picklable")

    # -- math functions numpy dispatches to for object arrays ----------------------------
    def sqrt(self):
        if not self.isreal():
            raise NotImplementedError("sqrt of complex symbol")
        if self.re.is_const():
            c = self.re.cval()
            if c < 0:
                return Sym.of(complex(0, math.sqrt(float(-c))))
            return Sym.of(math.sqrt(float(c)))
        return CTX.def_sqrt(self)

    def log(self):
        if self.is_const():
            return Sym.of(math.log(self.cval()))
        return CTX.def_uf("ln", [self], concrete=lambda v: math.log(v))

    def exp(self):
        if self.is_const():
            return Sym.of(math.exp(self.cval()))
        raise NotImplementedError("exp of symbol")

    def __abs__(self):
        if not self.isreal():
            a = (self.re_sym() * self.re_sym() + self.im_sym() * self.im_sym()).sqrt()
            if CTX.active and isinstance(a, Sym) and not a.is_const() and a.isreal():
                # linear consequences of a = sqrt(re^2 + im^2), valid over the reals (octagonal enclosure of the modulus):
                #   a >= |re|, |im|, (|re| + |im|)/sqrt2 ;   a <= max(|re|,|im|) + (sqrt2 - 1) min(|re|,|im|)
                import z3 as _z3
                az, rez, imz = a.re.z3(), self.re.z3(), self.im.z3()
                ar, ai = _z3.If(rez >= 0, rez, -rez), _z3.If(imz >= 0, imz, -imz)
                k_lo, k_up = _z3.RealVal("7071/10000"), _z3.RealVal("4143/10000")
                CTX.add_def(_z3.And(az >= ar, az >= ai, az >= k_lo * (ar + ai),
                                    az <= _z3.If(ar >= ai, ar + k_up * ai, ai + k_up * ar)))
            return a
        if self.re.is_const():
            return Sym(Poly.const(abs(self.re.cval())), ZERO, self.isint)
        return ite(self < 0, -self, self)

    def re_sym(self):
        return Sym(self.re)

    def im_sym(self):
        return Sym(self.im)

    # -- comparisons -------------------------------------------------------------------------
    def _cmp(self, o, op):
        if isinstance(o, np.ndarray):
            return NotImplemented
        o = Sym.of(o)
        if o is NotImplemented:
            if op == "eq":
                return False
            if op == "ne":
                return True
            return NotImplemented
        d = self - o
        if d.im.t:
            if op in ("eq", "ne"):
                e = s_and([_cmp0(d.re, "eq"), _cmp0(d.im, "eq")])
                return e if op == "eq" else ~e
            # numpy orders complex numbers lexicographically (real part first, then imaginary part)
            strict = "lt" if op in ("lt", "le") else "gt"
            lex = s_or([_cmp0(d.re, strict), s_and([_cmp0(d.re, "eq"), _cmp0(d.im, op)])])
            return lex.a if lex.k == "const" else lex
        r = _cmp0(d.re, op)
        if r.k == "const":
            return r.a
        return r

    def __lt__(self, o):
        return self._cmp(o, "lt")

    def __le__(self, o):
        return self._cmp(o, "le")

    def __gt__(self, o):
        return self._cmp(o, "gt")

    def __ge__(self, o):
        return self._cmp(o, "ge")

    def __eq__(self, o):
        return self._cmp(o, "eq")

    def __ne__(self, o):
        return self._cmp(o, "ne")

    def __hash__(self):
        return 0x5179

    def __bool__(self):
        return bool(self != 0)

    # -- realisation ---------------------------------------------------------------------------
    def __float__(self):
        if self.is_const() and self.isreal():
            return float(self.re.cval())
        raise Realised("symbolic scalar forced to float")

    def __complex__(self):
        if self.is_const():
            return complex(float(self.re.cval()), float(self.im.cval()))
        raise Realised("symbolic scalar forced to complex")

    def __int__(self):
        if self.is_const() and self.isreal():
            return int(self.re.cval())
        if self.isint:
            return CTX.concretize_int(self)
        raise Realised("symbolic scalar forced to int")

    def __index__(self):
        if self.is_const() and self.isreal() and self.re.cval().denominator == 1:
            return int(self.re.cval())
        if self.isint:
            return CTX.concretize_int(self)
        raise Realised("symbolic scalar used as index")

    def __round__(self, n=None):
        raise Realised("round() of symbolic scalar")

    def __repr__(self):
        if not self.im.t:
            return f"<{self.re}>"
        return f"<{self.re} + i({self.im})>"

    __str__ = __repr__

    def __format__(self, spec):
        return "<sym>"

    def eval(self, env):
        r = self.re.eval(env)
        if self.im.t:
            return complex(float(r), float(self.im.eval(env)))
        return r


def _is_sparse(o):
    return hasattr(o, "toarray") and hasattr(o, "nnz")


def _bcast(s, arr, f):
    from . import nd
    out = np.empty(arr.shape, dtype=object)
    fo = out.reshape(-1)
    fi = np.asarray(arr).reshape(-1)
    for i in range(fi.size):
        fo[i] = f(s, fi[i])
    return out.view(nd.SymNd)


def _cmp0(p: Poly, op) -> SBool:
    if p.is_const():
        c = p.cval()
        return SBool("const", c < 0 if op == "lt" else c <= 0 if op == "le" else c > 0 if op == "gt"
                     else c >= 0 if op == "ge" else c == 0 if op == "eq" else c != 0)
    return SBool("cmp", op, p)


def _lead(p: Poly):
    """canonical scale of a polynomial: its coefficient of largest magnitude (first such monomial); proportional polynomials get
    proportional scales, and the normalised polynomial has coefficients of magnitude <= 1"""
    best = None
    for m in sorted(p.t.keys(), key=lambda m: (len(m), m)):
        c = p.t[m]
        if best is None or abs(c) > abs(best):
            best = c
    return best


def _div(n: Poly, d: Poly) -> Poly:
    """n / d.  Quotients that differ from an earlier one only by constant factors of numerator / denominator re-use its
    definitional atom (scaled), so that e.g. (-q a)/p and (w q a)/p are recognised as multiples of each other"""
    if not n.t:
        return ZERO
    nc = _div_near_constant(n, d)
    if nc is not None:
        return nc
    cn, cd = _lead(n), _lead(d)
    key = (pkey(n.scale(1 / cn)), pkey(d.scale(1 / cd)))
    hit = CTX.div_canon.get(key)
    if hit is not None:
        q0, cn0, cd0 = hit
        f = (cn / cn0) / (cd / cd0)
        return q0 if f == 1 else q0.scale(f)
    q = CTX.def_div(n, d)
    if len(q.t) == 1 and () not in q.t:
        CTX.div_canon[key] = (q, cn, cd)
    return q


def _div_near_constant(n: Poly, d: Poly):
    """d = c + r with |r| <= 1e-9 |c| over the whole input box (a sum that is constant up to rounding residues, e.g. the total of a
    probability vector): n/d is written as the polynomial n/c plus a residual atom e := n/d - n/c, which is defined exactly
    ((n/c + e) d == n) and bounded by interval arithmetic, |e| <= max|n| max|r| / (|c| (|c| - max|r|)).  Exact, and keeps products of
    such quotients polynomial instead of products of opaque atoms."""
    c = d.t.get((), 0)
    if c == 0 or len(d.t) == 1:
        return None
    r = Poly({m: v for m, v in d.t.items() if m != ()})
    rb = poly_absbound(r)
    nb = poly_absbound(n)
    if rb is None or nb is None or rb > abs(c) * Fraction(1, 10 ** 9):
        return None
    ctx = CTX
    key = ("divnc", pkey(n), pkey(d))
    hit = ctx.memo.get(key)
    if hit is not None:
        return hit
    B = nb * rb / (abs(c) * (abs(c) - rb))
    main = n.scale(1 / c)

    def ev(env, n=n, d=d, c=c):
        nv, dv = n.eval(env), d.eval(env)
        if isinstance(dv, float) or isinstance(nv, float):
            return nv / dv - nv / float(c)
        return Fraction(nv) / Fraction(dv) - Fraction(nv) / c
    a = ctx.fresh("dres", ev=ev, lo=-B, hi=B)
    q = main.add(Poly.atom(a))
    ctx.add_def(q.mul(d).z3() == n.z3())
    ctx.add_def(z3.And(a.z3v >= _rv(-B), a.z3v <= _rv(B)))
    ctx.stub_log.append(("near-constant-denominator", f"|n/d - n/c| <= {float(B):.2e}"))
    ctx.memo[key] = q
    return q


def _floordivmod(a: Sym, b: Sym):
    if a.is_const() and b.is_const():
        q, r = divmod(a.cval(), b.cval())
        return Sym.of(q), Sym.of(r)
    if not (a.isint and b.isint):
        raise NotImplementedError("floor division of non-integer symbols")
    return CTX.def_divmod(a, b)


def poly_interval(p: Poly):
    """interval enclosure of p over the atom boxes (None when an atom is unbounded)"""
    lo = hi = F0
    for m, c in p.t.items():
        tlo = thi = F1
        for i in m:
            a = REG.atoms[i]
            if a.lo is None or a.hi is None:
                return None
            alo, ahi = frac(a.lo), frac(a.hi)
            cands = [tlo * alo, tlo * ahi, thi * alo, thi * ahi]
            tlo, thi = min(cands), max(cands)
        if c >= 0:
            lo += c * tlo
            hi += c * thi
        else:
            lo += c * thi
            hi += c * tlo
    return lo, hi


def div_parts(x):
    """(numerator, denominator) polynomials when x is exactly a quotient atom, else None"""
    x = Sym.of(x)
    if x.im.t or len(x.re.t) != 1:
        return None
    (m, c), = x.re.t.items()
    if len(m) != 1:
        return None
    nd_ = CTX.div_info.get(m[0])
    if nd_ is None:
        return None
    return (nd_[0].scale(c), nd_[1]) if c != 1 else nd_


def sym_real(name, lo=None, hi=None) -> Sym:
    return Sym(Poly.atom(REG.get(name, "real", lo, hi)))


def sym_int(name, lo=None, hi=None) -> Sym:
    return Sym(Poly.atom(REG.get(name, "int", lo, hi)), ZERO, True)


def is_sym(x):
    return type(x) is Sym and not x.is_const()


def ite(c, a, b):
    """if-then-else without a path split"""
    if isinstance(c, (bool, np.bool_)):
        return a if c else b
    c = SBool.of(c)
    if c.k == "const":
        return a if c.a else b
    a = Sym.of(a)
    b = Sym.of(b)

    def one(x: Poly, y: Poly, tag):
        if x is y or x.t == y.t:
            return x
        return CTX.def_ite(c, x, y)

    return Sym(one(a.re, b.re, "r"), one(a.im, b.im, "i"), a.isint and b.isint)


def smax(a, b):
    return ite(Sym.of(a) >= b, a, b)


def smin(a, b):
    return ite(Sym.of(a) <= b, a, b)


# ----------------------------------------------------------------------------------------
# evaluation environment (replay of a solver model / validation point)
# ----------------------------------------------------------------------------------------
class Env:
    """atom id -> exact value; definitional atoms evaluated lazily through their evaluators"""

    def __init__(self, inputs: dict):
        self.v = {}
        for name, val in inputs.items():
            a = REG.by_name.get(name)
            if a is not None:
                self.v[a.id] = val

    def value(self, i):
        v = self.v.get(i)
        if v is None:
            a = REG.atoms[i]
            if a.ev is None:
                raise KeyError(f"no value for atom {a.name}")
            v = a.ev(self)
            self.v[i] = v
        return v


# ----------------------------------------------------------------------------------------
# context: definitional constraints, path condition, explorer
# ----------------------------------------------------------------------------------------
class Ctx:
    def __init__(self):
        self.pathno = 0
        self.reset_path()
        self.prefix = []
        self.pending = []
        self.assume = []       # list[SBool] harness assumptions
        self.feas = None       # z3 solver for branch feasibility (relaxed)
        self.branch_timeout_ms = 10000
        self.stats = {"branch_queries": 0, "branch_time": 0.0, "branch_unknown": 0}
        self.active = False
        self.max_int_values = 64
        self.eager_ite = False
        self.exact_branching = False    # branch feasibility on the exact (non-linear) path condition: only for tiny problems
        self.div_info = {}

    def reset_path(self):
        self.trace = []
        self.pc = []           # list[SBool]
        self.defs = []         # list[(z3 linear-safe constraint, z3 exact constraint or None)]
        self.monos = set()
        self.ndef = 0
        self.uf_apps = []      # (name, args tuple z3, result atom) for reporting
        self.stub_log = []
        self.lemmas = []
        self.div_canon = {}
        self.uf_defs = set()
        self.div_info = {}
        self.memo = {}         # structural hash-consing of definitional atoms (per path)

    def note_mono(self, m):
        if m not in self.monos:
            self.monos.add(m)
            if self.feas is not None:
                self._feas_mono_bounds(m)
                if self.exact_branching:
                    self.feas.add(mono_def(m))

    def _feas_mono_bounds(self, m):
        # sign / magnitude facts that keep the relaxation useful: even powers are >= 0,
        # |mono| <= prod of atom bounds when known
        v = mono_z3(m)
        cnt = {}
        for i in m:
            cnt[i] = cnt.get(i, 0) + 1
        if all(c % 2 == 0 for c in cnt.values()):
            self.feas.add(v >= 0)
        b = 1
        for i in m:
            a = REG.atoms[i]
            if a.lo is None or a.hi is None:
                b = None
                break
            b *= max(abs(a.lo), abs(a.hi))
        if b is not None:
            self.feas.add(v <= _rv(frac(b)), v >= _rv(frac(-b)))

    def fresh(self, base, kind="real", ev=None, lo=None, hi=None) -> Atom:
        self.ndef += 1
        return REG.get(f"{base}!{self.pathno}.{self.ndef}", kind, lo, hi, ev)

    def add_def(self, relaxed, exact=None):
        """relaxed: z3 constraint that is linear over atoms/mono-vars (always asserted);
        exact: additional non-linear constraint asserted only in exact queries"""
        self.defs.append((relaxed, exact))
        if self.feas is not None and relaxed is not None:
            self.feas.add(relaxed)

    # ---- definitional atoms ------------------------------------------------------------
    def def_ite(self, c: SBool, x: Poly, y: Poly) -> Poly:
        key = ("ite", bkey(c), pkey(x), pkey(y))
        hit = self.memo.get(key)
        if hit is not None:
            return hit
        if self.eager_ite and self.active and self.feas is not None:
            # if the path condition already decides the condition, no definitional atom is needed (sound simplification)
            ck = ("cond", bkey(c))
            dec = self.memo.get(ck)
            if dec is None:
                cz = c.z3()
                ft = self._check(cz)
                ff = self._check(z3.Not(cz)) if ft else True
                dec = "T" if (ft and not ff) else ("F" if (ff and not ft) else "?")
                self.memo[ck] = dec
            if dec == "T":
                return x
            if dec == "F":
                return y
        r = self._def_ite(c, x, y)
        self.memo[key] = r
        return r

    def _def_ite(self, c: SBool, x: Poly, y: Poly) -> Poly:
        ix, iy = poly_interval(x), poly_interval(y)
        a = self.fresh("ite", ev=lambda env, c=c, x=x, y=y: x.eval(env) if c.eval(env) else y.eval(env))
        if ix is not None and iy is not None:
            a.lo, a.hi = min(ix[0], iy[0]), max(ix[1], iy[1])
        cz = c.z3()
        self.add_def(z3.And(z3.Implies(cz, a.z3v == x.z3()), z3.Implies(z3.Not(cz), a.z3v == y.z3())))
        return Poly.atom(a)

    def def_div(self, n: Poly, d: Poly) -> Poly:
        # n == c*d syntactically  =>  the quotient is the constant c (d != 0 is still checked on the path)
        if len(n.t) == len(d.t) and n.t.keys() == d.t.keys():
            it = iter(d.t.items())
            k0, v0 = next(it)
            c = n.t[k0] / v0
            if all(n.t[k] == c * v for k, v in d.t.items()):
                nz = _cmp0(d, "ne")
                if not bool(nz):
                    raise ZeroDivisionError("symbolic division by a term that is zero on this path")
                return Poly.const(c)
        key = ("div", pkey(n), pkey(d))
        hit = self.memo.get(key)
        if hit is not None:
            return hit
        r = self._def_div(n, d)
        self.memo[key] = r
        return r

    def _def_div(self, n: Poly, d: Poly) -> Poly:
        nz = _cmp0(d, "ne")
        if not bool(nz):
            raise ZeroDivisionError("symbolic division by a term that is zero on this path")

        def ev(env, n=n, d=d):
            dv = d.eval(env)
            nv = n.eval(env)
            if isinstance(dv, float) or isinstance(nv, float):
                return nv / dv
            return Fraction(nv) / Fraction(dv)
        a = self.fresh("div", ev=ev)
        q = Poly.atom(a)
        self.div_info[a.id] = (n, d)
        prod = q.mul(d)
        iv = poly_interval(d)
        if iv is not None and iv[0] > 0:
            # denominator provably within [dlo, dhi], dlo > 0:  n >= 0 -> dlo*q <= n <= dhi*q ;  n <= 0 -> dhi*q <= n <= dlo*q
            dlo, dhi = _rv(iv[0]), _rv(iv[1])
            nz0 = n.z3()
            self.add_def(z3.And(z3.Implies(nz0 >= 0, z3.And(dlo * a.z3v <= nz0, dhi * a.z3v >= nz0)),
                                z3.Implies(nz0 <= 0, z3.And(dhi * a.z3v <= nz0, dlo * a.z3v >= nz0))))
        # q*d == n : linear in the monomial variables; the monomial definitions make it exact.
        # Sign / magnitude facts (valid consequences) keep the relaxation sharp.
        nz_, dz_, qz_ = n.z3(), d.z3(), a.z3v
        self.add_def(z3.And(prod.z3() == nz_,
                            z3.Implies(z3.And(dz_ > 0, nz_ >= 0), qz_ >= 0), z3.Implies(z3.And(dz_ > 0, nz_ <= 0), qz_ <= 0),
                            z3.Implies(z3.And(dz_ < 0, nz_ >= 0), qz_ <= 0), z3.Implies(z3.And(dz_ < 0, nz_ <= 0), qz_ >= 0),
                            z3.Implies(z3.And(dz_ > 0, nz_ <= dz_), qz_ <= 1), z3.Implies(z3.And(dz_ > 0, nz_ >= dz_), qz_ >= 1),
                            z3.Implies(z3.And(dz_ > 0, nz_ >= -dz_), qz_ >= -1), z3.Implies(nz_ == dz_, qz_ == 1)))
        # threshold facts for the clipping constants that numeric code compares quotients with (valid for any constant c)
        for c_ in THRESH_CONSTS:
            cz_ = _rv(frac(c_))
            self.add_def(z3.And(z3.Implies(z3.And(dz_ > 0, nz_ >= cz_ * dz_), qz_ >= cz_),
                                z3.Implies(z3.And(dz_ > 0, nz_ <= cz_ * dz_), qz_ <= cz_)))
        return q

    def lemma_normalised(self, quotients, numerators, d: Poly):
        """quotients q_i = n_i / d with sum(n_i) == d syntactically  =>  sum(q_i) == 1 (d != 0 on this path)"""
        tot = ZERO
        for n in numerators:
            tot = tot.add(n)
        if tot.sub(d).t:
            return False
        sq = ZERO
        for q in quotients:
            sq = sq.add(q)
        self.add_def(sq.z3() == z3.RealVal(1))
        return True

    def def_sqrt(self, s: Sym) -> Sym:
        key = ("sqrt", pkey(s.re))
        hit = self.memo.get(key)
        if hit is not None:
            return hit
        r = self._def_sqrt(s)
        self.memo[key] = r
        return r

    def _def_sqrt(self, s: Sym) -> Sym:
        nn = _cmp0(s.re, "ge")
        if nn.k == "const":
            if not nn.a:
                raise StubMiss("sqrt of a negative constant")
        elif self.active and self.feas is not None:
            can_neg = self._check(z3.Not(nn.z3()))
            if can_neg:
                if s.re.degree() >= 2:
                    # typically a sum of squares whose non-negativity is invisible to the linear relaxation: state it as a
                    # lemma (proved by the exact solver before it is used) instead of splitting the path
                    self.lemmas.append(nn)
                    self.feas.add(nn.z3())
                elif not bool(nn):
                    raise StubMiss("sqrt of a term that is negative on this path")

        def ev(env, p=s.re):
            return math.sqrt(float(p.eval(env)))
        a = self.fresh("sqrt", ev=ev)
        r = Poly.atom(a)
        az = s.re.z3()
        # r*r == a (linear in the monomial variable r*r) plus linear facts that keep the relaxation sharp:
        # r >= 0, (a > 0 -> r > 0), r <= (a+1)/2 (AM-GM), and r >= a when a <= 1, r <= a when a >= 1
        self.add_def(z3.And(r.mul(r).z3() == az, a.z3v >= 0, z3.Implies(az > 0, a.z3v > 0), 2 * a.z3v <= az + 1,
                            z3.Implies(az <= 1, a.z3v >= az), z3.Implies(az >= 1, a.z3v <= az), z3.Implies(az >= 1, a.z3v >= 1),
                            z3.Implies(az <= 1, a.z3v <= 1)))
        return Sym(r)

    def def_divmod(self, a: Sym, b: Sym):
        if not b.is_const():
            raise NotImplementedError("floor division by a symbolic divisor")
        bc = int(b.cval())
        if bc <= 0:
            raise NotImplementedError("floor division by non-positive constant")
        qa = self.fresh("fdq", "int", ev=lambda env, p=a.re, bc=bc: int(p.eval(env)) // bc)
        ra = self.fresh("fdr", "int", ev=lambda env, p=a.re, bc=bc: int(p.eval(env)) % bc)
        q = Poly.atom(qa)
        r = Poly.atom(ra)
        self.add_def(z3.And(a.re.z3() == q.scale(Fraction(bc)).add(r).z3(), ra.z3v >= 0, ra.z3v < bc))
        return Sym(q, ZERO, True), Sym(r, ZERO, True)

    def def_uf(self, name, args, concrete=None, nout=None, index=None) -> Sym:
        """application of an uninterpreted real function name(args) (optionally component `index`)"""
        fname = name if index is None else f"{name}_{index}"
        key = ("uf", fname, tuple(pkey(Sym.of(x).re) for x in args))
        hit = self.memo.get(key)
        if hit is not None:
            return hit
        r = self._def_uf(name, args, concrete, nout, index)
        self.memo[key] = r
        return r

    def seed_uf(self, name, args, value, index=None):
        """assume f(args) == value by rewriting: later applications of f to syntactically equal arguments return value"""
        fname = name if index is None else f"{name}_{index}"
        key = ("uf", fname, tuple(pkey(Sym.of(x).re) for x in args))
        self.memo[key] = Sym.of(value)

    def _def_uf(self, name, args, concrete=None, nout=None, index=None) -> Sym:
        fname = name if index is None else f"{name}_{index}"
        zargs = [Sym.of(x).re.z3() for x in args]
        f = z3.Function(fname, *([z3.RealSort()] * (len(zargs) + 1)))

        def ev(env, args=args, concrete=concrete, index=index):
            if concrete is None:
                raise KeyError(f"uninterpreted function {fname} has no concrete stand-in")
            vals = [float(Sym.of(x).re.eval(env)) for x in args]
            r = concrete(*vals)
            return r if index is None else r[index]
        a = self.fresh("uf_" + fname, ev=ev)
        self.add_def(a.z3v == f(*zargs))
        self.uf_defs.add(len(self.defs) - 1)
        self.uf_apps.append((fname, len(zargs)))
        return Sym(Poly.atom(a))

    # ---- branching ------------------------------------------------------------------------
    def _check(self, extra):
        s = self.feas
        t = time.time()
        s.push()
        s.add(extra)
        r = str(s.check())
        s.pop()
        self.stats["branch_queries"] += 1
        self.stats["branch_time"] += time.time() - t
        if r == "unknown":
            self.stats["branch_unknown"] += 1
            return True
        return r == "sat"

    def branch(self, cond: SBool) -> bool:
        if not self.active:
            raise Realised("symbolic condition evaluated outside an exploration")
        i = len(self.trace)
        cz = cond.z3()
        if i < len(self.prefix):
            d = self.prefix[i]
        else:
            if time.time() > self.deadline:
                raise Budget("time budget exhausted while exploring paths")
            ft = self._check(cz)
            ff = self._check(z3.Not(cz))
            if ft and ff:
                d = True
                self.pending.append(self.trace + [False])
            elif ft:
                d = True
            elif ff:
                d = False
            else:
                raise Infeasible()
        self.trace.append(d)
        c = cond if d else ~cond
        self.pc.append(c)
        self.feas.add(cz if d else z3.Not(cz))
        return d

    def concretize_int(self, s: Sym) -> int:
        """fork over the feasible values of an integer term"""
        for _ in range(self.max_int_values):
            f = self.feas
            f.set("timeout", 60000)
            try:
                r = str(f.check())
            finally:
                f.set("timeout", self.branch_timeout_ms)
            if r == "unknown":
                raise Budget("solver gave up while enumerating the values of a symbolic integer")
            if r != "sat":
                raise Infeasible()
            m = f.model()
            v = m.eval(s.re.z3(), model_completion=True)
            try:
                v = int(v.as_fraction()) if hasattr(v, "as_fraction") else int(v.as_long())
            except Exception:
                v = int(str(v))
            if bool(s == v):
                return v
        raise Budget("too many values for a symbolic integer")


CTX = Ctx()


class AssumptionFailed(Exception):
    """a harness-level assumption made inside run() does not hold at a concrete point"""


def assume(f):
    """harness assumption made in the middle of a run (e.g. about values produced by a stub): becomes part of the path
    condition; at a concrete point a failing assumption invalidates the point"""
    if isinstance(f, (bool, np.bool_)):
        if not f:
            if CTX.active:
                raise Infeasible()
            raise AssumptionFailed()
        return
    f = SBool.of(f)
    if f.k == "const":
        return assume(f.a)
    if not CTX.active:
        raise Realised("symbolic assumption outside an exploration")
    CTX.pc.append(f)
    CTX.feas.add(f.z3())
    if not CTX._check(z3.BoolVal(True)):
        raise Infeasible()          # the assumption contradicts the path: never continue on (and "prove" things from) an empty path


def lemma(f):
    """a fact the harness states about the current path (e.g. a bound on a quotient atom that follows non-linearly from the
    assumptions).  It is used like an assumption when the claims are decided, but ONLY after the exact solver has proved it from
    the path's constraints (oblig.decide_path); an unproved lemma makes the obligation inconclusive."""
    if isinstance(f, (bool, np.bool_)):
        if not f:
            raise StubMiss("harness lemma is false")
        return
    f = SBool.of(f)
    if f.k == "const":
        return lemma(f.a)
    if not CTX.active:
        return
    CTX.lemmas.append(f)
    CTX.feas.add(f.z3())


def div_atoms():
    """the quotient atoms created so far on this path, as Syms"""
    return [Sym(Poly.atom(REG.atoms[i])) for i in CTX.div_info]


def near_quotients(rel=1e-9):
    """pairs of quotient atoms whose numerators and denominators agree, after normalisation, up to coefficient differences <= rel
    (the same quantity computed along two routes with different rounding): yields (q_a, q_b, f) with q_a ~= f * q_b.  The harness
    states |q_a - f q_b| <= tol as a lemma -- it is proved by the exact solver before it is used."""
    items = list(CTX.div_info.items())
    norm = []
    for i, (n, d) in items:
        cn, cd = _lead(n), _lead(d)
        norm.append((i, n.scale(1 / cn), d.scale(1 / cd), cn / cd))

    def close(p, q):
        for m in set(p.t) | set(q.t):
            if abs(p.t.get(m, 0) - q.t.get(m, 0)) > rel:
                return False
        return True
    out = []
    for x in range(len(norm)):
        for y in range(x + 1, len(norm)):
            i, n1, d1, f1 = norm[x]
            j, n2, d2, f2 = norm[y]
            if close(n1, n2) and close(d1, d2):
                out.append((Sym(Poly.atom(REG.atoms[i])), Sym(Poly.atom(REG.atoms[j])), f1 / f2))
    return out


def poly_absbound(p: Poly):
    """upper bound of |p| over the atom boxes (None when an atom is unbounded)"""
    tot = 0
    for m, c in p.t.items():
        b = abs(c)
        for i in m:
            a = REG.atoms[i]
            if a.lo is None or a.hi is None:
                return None
            b = b * frac(max(abs(a.lo), abs(a.hi)))
        tot += b
    return tot


def derive_near_quotient_facts(tol=1e-8, rel=1e-9):
    """For every pair of near-duplicate quotients q_a = n_a/d_a, q_b = n_b/d_b (near_quotients) derive |q_a - f q_b| <= tol and add it as a
    fact of the path, by arithmetic rather than by an NRA query:
        (q_a - f q_b) d_a d_b = n_a d_b - f n_b d_a =: r        (exact polynomial identity from the two definitions)
        |r| <= eps over the input boxes                          (coefficient-wise interval bound; r has only rounding-size coefficients)
        |d_a| >= delta, |d_b| >= delta on this path              (two solver queries each: `d < delta` unsat under the path's constraints)
    hence |q_a - f q_b| <= eps / delta^2.  Pairs for which this does not reach tol are left alone.  Returns the number of facts added."""
    ctx = CTX
    if not ctx.active or ctx.feas is None:
        return 0
    added = 0
    s = ctx.feas

    def lower(d):
        for delta in (1e-2, 1e-3, 1e-4, 1e-5, 1e-6):
            dv = _rv(frac(delta))
            e = d.z3()
            for sign in (1, -1):
                s.push()
                s.add(e < dv if sign == 1 else e > -dv)
                r = str(s.check())
                s.pop()
                if r == "unsat":
                    return frac(delta)
        return None
    lows = {}
    for qa, qb, f in near_quotients(rel):
        ia = next(iter(qa.re.t))[0]
        ib = next(iter(qb.re.t))[0]
        na, da = ctx.div_info[ia]
        nb, db = ctx.div_info[ib]
        r = na.mul(db).sub(nb.mul(da).scale(f))
        eps = poly_absbound(r)
        if eps is None:
            continue
        for i_, d_ in ((ia, da), (ib, db)):
            if i_ not in lows:
                lows[i_] = lower(d_)
        if lows[ia] is None or lows[ib] is None:
            continue
        bound = eps / (lows[ia] * lows[ib])
        if bound > frac(tol):
            continue
        diff = qa.re.sub(qb.re.scale(f)).z3()
        t = _rv(frac(tol))
        ctx.add_def(z3.And(diff <= t, diff >= -t))
        ctx.stub_log.append(("near-quotient-fact", f"|q{ia} - {float(f):.6g} q{ib}| <= {tol} (eps={float(eps):.2e}, delta={float(lows[ia]):.0e},{float(lows[ib]):.0e})"))
        added += 1
    return added


class PathResult:
    __slots__ = ("trace", "pc", "defs", "monos", "kind", "value", "stub_log", "uf_apps", "ndef", "lemmas", "uf_defs")

    def __init__(self, ctx: Ctx, kind, value):
        self.trace = list(ctx.trace)
        self.pc = list(ctx.pc)
        self.defs = list(ctx.defs)
        self.monos = set(ctx.monos)
        self.kind = kind
        self.value = value
        self.stub_log = list(ctx.stub_log)
        self.uf_apps = list(ctx.uf_apps)
        self.ndef = ctx.ndef
        self.lemmas = list(ctx.lemmas)
        self.uf_defs = set(ctx.uf_defs)


def mono_facts(monos):
    """sound linear facts about monomial variables: even powers are non-negative, |mono| <= product of the atom bounds"""
    out = []
    for m in monos:
        v = mono_z3(m)
        cnt = {}
        for i in m:
            cnt[i] = cnt.get(i, 0) + 1
        if all(c % 2 == 0 for c in cnt.values()):
            out.append(v >= 0)
        b = F1
        for i in m:
            a = REG.atoms[i]
            if a.lo is None or a.hi is None:
                b = None
                break
            b *= max(abs(frac(a.lo)), abs(frac(a.hi)))
        if b is not None:
            out.append(v <= _rv(b))
            out.append(v >= _rv(-b))
    return out


def bounds_constraints(margin=0.0):
    out = []
    for a in REG.atoms:
        m = 0
        if margin and a.kind == "real" and a.lo is not None and a.hi is not None and a.hi > a.lo:
            m = frac(margin) * min(1, frac(a.hi) - frac(a.lo))
        if a.lo is not None:
            out.append(a.z3v >= (_rv(frac(a.lo) + m) if a.kind == "real" else int(a.lo)))
        if a.hi is not None:
            out.append(a.z3v <= (_rv(frac(a.hi) - m) if a.kind == "real" else int(a.hi)))
    return out


def explore(fn, assume=(), max_paths=2000, time_budget=120.0, on_path=None):
    """Run fn() along every feasible path.  Returns (results, complete:bool, info)."""
    ctx = CTX
    ctx.pending = [[]]
    ctx.assume = [SBool.of(a) for a in assume]
    ctx.deadline = time.time() + time_budget
    results = []
    complete = True
    info = {"infeasible": 0, "budget": None}
    while ctx.pending:
        if len(results) >= max_paths:
            complete = False
            info["budget"] = f"path budget {max_paths} exhausted"
            break
        if time.time() > ctx.deadline:
            complete = False
            info["budget"] = f"time budget {time_budget}s exhausted"
            break
        ctx.prefix = ctx.pending.pop()
        ctx.pathno += 1
        ctx.reset_path()
        s = z3.Solver()
        s.set("timeout", ctx.branch_timeout_ms)
        ctx.feas = s
        for c in bounds_constraints():
            s.add(c)
        for a in ctx.assume:
            s.add(a.z3())
        for m in list(ctx.monos):
            ctx._feas_mono_bounds(m)
            if ctx.exact_branching:
                s.add(mono_def(m))
        ctx.active = True
        try:
            v = fn()
            r = PathResult(ctx, "ok", v)
        except Infeasible:
            info["infeasible"] += 1
            continue
        except Budget as e:
            complete = False
            info["budget"] = str(e)
            r = PathResult(ctx, "budget", e)
        except Outside as e:
            r = PathResult(ctx, "outside", e)
        except StubMiss as e:
            r = PathResult(ctx, "stubmiss", e)
        except Exception as e:  # the code under analysis raised
            r = PathResult(ctx, "exc", e)
        finally:
            ctx.active = False
        results.append(r)
        if on_path is not None:
            on_path(r)
    ctx.feas = None
    return results, complete, info
