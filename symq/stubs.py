"""symq.stubs -- contract stubs for C boundaries (LAPACK eigensolvers, scipy sqrtm, PRNG).

eigh / eigvalsh: *spectral parametrisation*.  The harness builds the matrix the code will
decompose FROM symbolic eigenvalues w (ascending) and an eigenvector frame V:
A := V diag(w) V^dagger, and registers (A, w, V).  When the code calls eigh(M) the stub proves
M == A (interval bound first, solver otherwise, tolerance 1e-9) and answers (w, V); a call on a
matrix it cannot match is an inconclusive path (StubMiss), never a pass.
"""
from __future__ import annotations
import os, sys
import numpy as np
import z3
from . import core, nd
from .core import Sym, Poly, frac
from .nd import SymNd

TABLE = []      # registered spectral decompositions for the current obligation
LOG = []
UF = {"on": False}
MEMO = []       # uninterpreted eigen-decompositions handed out in UF mode: (M, w, V)


def reset():
    TABLE.clear()
    LOG.clear()
    MEMO.clear()
    UF["on"] = False


def uf_mode(on=True):
    """eigh(M) answers with a fresh *uninterpreted* eigen-decomposition (symbolic eigenvalues, ascending, and a symbolic
    complex eigenvector matrix), the same one for the same matrix: enough to decide that two computations are the same
    function of the same decomposition (congruence), nothing more is assumed about w and V"""
    UF["on"] = on


def _eigh_uf(M):
    for M0, w, V in MEMO:
        if _same(M, M0, 1e-12):
            core.CTX.stub_log.append(("eigh-uf", "memo"))
            return w, V
    d = M.shape[0]
    ctx = core.CTX
    cache = {}

    def concrete(env):
        key = id(env)
        if key not in cache:
            Mc = np.array([[complex(Sym.of(M[i, j]).eval(env)) for j in range(d)] for i in range(d)])
            cache.clear()
            cache[key] = np.linalg.eigh(Mc)
        return cache[key]
    w = []
    for i in range(d):
        a = ctx.fresh(f"eigw{len(MEMO)}_{i}", ev=lambda env, i=i: float(concrete(env)[0][i]), lo=-1e6, hi=1e6)
        w.append(Sym(core.Poly.atom(a)))
    for i in range(d - 1):
        ctx.add_def((w[i] <= w[i + 1]).z3())
    V = np.empty((d, d), dtype=object)
    for i in range(d):
        for j in range(d):
            ar = ctx.fresh(f"eigVr{len(MEMO)}_{i}_{j}", ev=lambda env, i=i, j=j: float(concrete(env)[1][i, j].real), lo=-1, hi=1)
            ai = ctx.fresh(f"eigVi{len(MEMO)}_{i}_{j}", ev=lambda env, i=i, j=j: float(concrete(env)[1][i, j].imag), lo=-1, hi=1)
            V[i, j] = Sym(core.Poly.atom(ar), core.Poly.atom(ai))
    V = V.view(SymNd)
    MEMO.append((M, w, V))
    core.CTX.stub_log.append(("eigh-uf", "new"))
    return w, V


def spectral(w, V, name="A"):
    """register A = V diag(w) V^dagger and return A (SymNd).  w: list of Sym / floats, V: complex ndarray"""
    d = len(w)
    V = np.asarray(V, dtype=complex)
    Vo = V.astype(object)
    A = np.zeros((d, d), dtype=object)
    for k in range(d):
        col = Vo[:, k]
        for i in range(d):
            if col[i] == 0:
                continue
            for j in range(d):
                if col[j] == 0:
                    continue
                A[i, j] = A[i, j] + w[k] * (col[i] * np.conj(col[j]))
    A = A.view(SymNd)
    if any(type(x) is Sym and not x.is_const() for x in w):
        TABLE.append((name, A, list(w), V))
        return A
    return nd.to_concrete(A).astype(np.complex128)


def _poly_bound(p: Poly):
    """upper bound of |p| over the atom boxes; None when some atom is unbounded"""
    tot = 0
    for m, c in p.t.items():
        b = abs(c)
        for i in m:
            a = core.REG.atoms[i]
            if a.lo is None or a.hi is None:
                return None
            b = b * frac(max(abs(a.lo), abs(a.hi)))
        tot += b
    return tot


def _same(M, A, tol=1e-9):
    if M is A:
        return True
    if M.shape != A.shape:
        return False
    diffs = []
    for x, y in zip(np.ndarray.reshape(np.asarray(M, dtype=object), -1), np.ndarray.reshape(np.asarray(A, dtype=object), -1)):
        d = Sym.of(x) - Sym.of(y)
        for p in (d.re, d.im):
            if p.t:
                diffs.append(p)
    hard = []
    for p in diffs:
        b = _poly_bound(p)
        if b is None or b > frac(tol):
            hard.append(p)
    if not hard:
        return True
    if os.environ.get("SYMQ_DEBUG"):
        print("stubs._same: %d/%d entries need the solver; largest bound %s" % (len(hard), len(diffs), max((float(_poly_bound(p) or 1e99) for p in hard))), str(hard[0])[:300], file=sys.stderr)
    ctx = core.CTX
    if ctx.feas is None:
        return False
    s = ctx.feas
    t = z3.RealVal(str(frac(tol)))
    # entry by entry: each query is small (one difference polynomial against the path condition and definitions)
    s.set("timeout", 30000)
    ok = True
    try:
        for p in hard:
            s.push()
            e = p.z3()
            s.add(z3.Or(e > t, e < -t))
            r = str(s.check())
            s.pop()
            if r != "unsat":
                ok = False
                break
    finally:
        s.set("timeout", ctx.branch_timeout_ms)
    return ok


def _lookup(M):
    for name, A, w, V in TABLE:
        if _same(M, A):
            LOG.append(("eigh", name))
            core.CTX.stub_log.append(("eigh", name))
            return w, V
    return None


def eigh(M, UPLO="L"):
    if nd.is_concrete(M):
        return nd._symbolic_result(np.linalg.eigh(nd.to_concrete(M)))
    if UF["on"]:
        w, V = _eigh_uf(M)
        return SymNd(list(w)), V.copy()
    hit = _lookup(M)
    if hit is None:
        raise core.StubMiss("eigh called on a symbolic matrix that is not a registered spectral parametrisation")
    w, V = hit
    return SymNd(list(w)), V.copy()


def eigvalsh(M, UPLO="L"):
    if nd.is_concrete(M):
        return nd._symbolic_result(np.linalg.eigvalsh(nd.to_concrete(M)))
    hit = _lookup(M)
    if hit is None:
        raise core.StubMiss("eigvalsh called on a symbolic matrix that is not a registered spectral parametrisation")
    return SymNd(list(hit[0]))


def eig(M):
    """contract of numpy.linalg.eig (general eigen-solver) on the registered Hermitian matrix: the eigenvalues, and unit-norm
    eigenvectors that are linearly independent -- but, unlike eigh, NOT necessarily orthogonal inside a degenerate eigenspace.
    The stub therefore answers with an allowed non-orthogonal basis whenever two neighbouring eigenvalues coincide:
    column i+1 := (v_i + v_{i+1})/sqrt(2) if w_i == w_{i+1} else v_{i+1}."""
    if nd.is_concrete(M):
        return nd._symbolic_result(np.linalg.eig(nd.to_concrete(M)))
    hit = _lookup(M)
    if hit is None:
        raise core.StubMiss("eig called on a symbolic matrix that is not a registered spectral parametrisation")
    w, V = hit
    d = len(w)
    Vo = np.asarray(V, dtype=complex).astype(object)
    out = Vo.copy()
    r2 = 1.0 / np.sqrt(2.0)
    for i in range(d - 1):
        tie = core.SBool.of(Sym.of(w[i]) == w[i + 1])
        if tie.k == "const" and not tie.a:
            continue
        for r in range(d):
            mixed = (Vo[r, i] + Vo[r, i + 1]) * r2
            out[r, i + 1] = core.ite(tie, Sym.of(mixed), Sym.of(Vo[r, i + 1]))
    return SymNd(list(w)), out.view(SymNd)


def eigvals(M):
    if nd.is_concrete(M):
        return nd._symbolic_result(np.linalg.eigvals(nd.to_concrete(M)))
    hit = _lookup(M)
    if hit is None:
        raise core.StubMiss("eigvals on unregistered symbolic matrix")
    return SymNd(list(hit[0]))


nd.OVERRIDES[np.linalg.eigh] = eigh
nd.OVERRIDES[np.linalg.eigvalsh] = eigvalsh
nd.OVERRIDES[np.linalg.eig] = eig
nd.OVERRIDES[np.linalg.eigvals] = eigvals
for f in (np.linalg.eigh, np.linalg.eigvalsh, np.linalg.eig, np.linalg.eigvals):
    nd.CONCRETE_ONLY.discard(f)


def ascending(w):
    """assumption list: w[0] <= w[1] <= ..."""
    return [Sym.of(w[i]) <= w[i + 1] for i in range(len(w) - 1)]


def gaps(w, gap):
    """assumption list: consecutive eigenvalues differ by at least gap (non-degenerate spectrum)"""
    return [Sym.of(w[i]) + gap <= w[i + 1] for i in range(len(w) - 1)]


def away_from(w, points, margin):
    """assumption: every eigenvalue is at least `margin` away from each threshold in points"""
    out = []
    for x in w:
        for p in points:
            out.append((Sym.of(x) <= p - margin) | (Sym.of(x) >= p + margin))
    return out
