import sys; sys.path.insert(0, __import__("os").path.dirname(__import__("os").path.abspath(__file__)))
import numpy as np, scipy.linalg
from symnp1 import *
a = SymNd([SC(Lin.var(f"a{i}")) for i in range(4)])
M = SymNd([[SC(Lin.var(f"m{i}{j}")) for j in range(2)] for i in range(2)])
C = np.array([[1.0, 2.0],[3.0, 4.0]])
Cc = np.array([[1.0, 2.0j],[3.0, 4.0]])
tests = {
 "insert": lambda: np.insert(a, 0, 0.5),
 "insert_axis": lambda: np.insert(M, 0, np.eye(1,2), axis=0),
 "delete": lambda: np.delete(a, 0),
 "delete_slice": lambda: np.delete(a, np.s_[:2]),
 "hstack": lambda: np.hstack([a, a]),
 "vstack": lambda: np.vstack([a, a]),
 "append": lambda: np.append(a, a),
 "kron_cs": lambda: np.kron(C, M),
 "kron_ss_lin": lambda: np.kron(np.eye(2), M),
 "outer_cs": lambda: np.outer(np.array([1.,2.]), a),
 "trace": lambda: np.trace(M),
 "diag": lambda: np.diag(a),
 "diag2": lambda: np.diag(M),
 "tile": lambda: np.tile(a, 2),
 "split": lambda: np.split(a, [2]),
 "block": lambda: np.block([[M, M],[M, M]]),
 "stack": lambda: np.stack([a, a], 1),
 "sum_axis": lambda: np.sum(M, axis=0),
 "sum": lambda: np.sum(M),
 "dot_cs": lambda: np.dot(np.array([1.,2.,3.,4.]), a),
 "vdot_cs": lambda: np.vdot(np.array([1.,2.,3.,4j]), a),
 "vdot_sc": lambda: np.vdot(a, np.array([1.,2.,3.,4j])),
 "matmul_cs": lambda: C @ M,
 "matmul_ccs": lambda: Cc @ M,
 "matmul_sc": lambda: M @ Cc,
 "T.conj": lambda: M.T.conjugate(),
 "conj()": lambda: M.conj(),
 "np.conjugate": lambda: np.conjugate(M),
 "real": lambda: M.real,
 "imag": lambda: M.imag,
 "flatten": lambda: M.flatten(),
 "reshape": lambda: a.reshape((2,2)),
 "block_diag": lambda: scipy.linalg.block_diag(M, M),
 "array_of": lambda: np.array([a, a]),
 "array_list_scalars": lambda: np.array([a[0], a[1]]),
 "array_dtype": lambda: np.array([a[0], a[1]], dtype=np.float64),
 "mean": lambda: np.mean(a),
 "scalar*arr": lambda: 2.0 * M,
 "np.float64*arr": lambda: np.float64(2.0) * M,
 "arr/np.float64": lambda: M / np.float64(2.0),
 "np.float64*scalar": lambda: np.float64(2.0) * a[0],
 "np.sqrt(2)*scalar": lambda: np.sqrt(2) * a[0],
 "scalar/np.sqrt": lambda: a[0] / np.sqrt(2),
 "complex*scalar": lambda: (1j) * a[0],
 "np.complex*scalar": lambda: np.complex128(1j) * a[0],
 "arr*arr_c": lambda: M * C,
 "c_arr*arr": lambda: C * M,
 "c_arr+=": lambda: (lambda z: z.__iadd__(M))(np.zeros((2,2))),
 "copy.deepcopy": lambda: __import__("copy").deepcopy(M),
 "setflags": lambda: M.copy().setflags(write=False),
 "np.where_c": lambda: np.where(np.array([[True, False],[False, True]]), M, 0.0),
 "np.eye@": lambda: np.eye(2) @ M,
 "zeros_like": lambda: np.zeros_like(M),
 "ix_": lambda: M[np.ix_([True, False],[True, True])],
 "maximum": lambda: np.maximum(C, 0*C),
 "linalg.norm": lambda: np.linalg.norm(np.array([1.0,2.0])),
 "abs": lambda: np.abs(C @ C),
 "power": lambda: (C@M) ** 2,
}
for k, f in tests.items():
    try:
        r = f()
        t = type(r).__name__
        extra = getattr(r, "shape", "")
        print(f"{k:22s} OK  {t} {extra}")
    except BaseException as e:
        print(f"{k:22s} FAIL {type(e).__name__}: {str(e)[:110]}")
