"""Probe 2: linear terms + definitional ITE atoms + SymBool + z3 + path explorer + np proxy."""
import sys, types, itertools
from fractions import Fraction
import numpy as np, z3
import scipy.sparse as sp
from scipy.sparse import _base

# ---------------- terms ----------------
class Ctx:
    def __init__(self):
        self.defs = []        # z3 side constraints for definitional atoms
        self.n = 0
        self.pc = []          # path condition (z3 bools)
        self.trace = []       # decisions taken
        self.prefix = []      # decisions to replay
        self.pending = []     # worklist of prefixes
        self.solver = None
    def fresh(self, base):
        self.n += 1; return f"{base}!{self.n}"
CTX = Ctx()

class Lin:
    __slots__ = ("c", "t")
    def __init__(self, c=0, t=None): self.c = Fraction(c); self.t = t or {}
    @staticmethod
    def var(n): return Lin(0, {n: Fraction(1)})
    def is_const(self): return not self.t
    def __add__(self, o):
        o = lift(o)
        if o is NotImplemented: return o
        t = dict(self.t)
        for k, v in o.t.items():
            nv = t.get(k, 0) + v
            if nv == 0: t.pop(k, None)
            else: t[k] = nv
        return Lin(self.c + o.c, t)
    __radd__ = __add__
    def __neg__(self): return Lin(-self.c, {k: -v for k, v in self.t.items()})
    def __sub__(self, o):
        o = lift(o)
        return o if o is NotImplemented else self + (-o)
    def __rsub__(self, o): return (-self) + o
    def scale(self, f): return Lin(0) if f == 0 else Lin(self.c * f, {k: v * f for k, v in self.t.items()})
    def __mul__(self, o):
        o = lift(o)
        if o is NotImplemented: return o
        if o.is_const(): return self.scale(o.c)
        if self.is_const(): return o.scale(self.c)
        raise NotImplementedError("nonlinear")
    __rmul__ = __mul__
    def __truediv__(self, o):
        o = lift(o)
        if o.is_const(): return self.scale(1 / o.c)
        raise NotImplementedError("nonlinear div")
    def z3(self):
        e = z3.RealVal(str(self.c)) if self.c != 0 or not self.t else None
        for k, v in self.t.items():
            term = z3.Real(k) if v == 1 else z3.RealVal(str(v)) * z3.Real(k)
            e = term if e is None else e + term
        return e
    def __repr__(self): return f"Lin({float(self.c):.3g}" + "".join(f"{float(v):+.3g}*{k}" for k, v in self.t.items()) + ")"

def lift(o):
    if isinstance(o, Lin): return o
    if isinstance(o, SC):
        if o.im.is_const() and o.im.c == 0: return o.re
        return NotImplemented
    if isinstance(o, Fraction): return Lin(o)
    if isinstance(o, (bool, np.bool_, int, np.integer)): return Lin(int(o))
    if isinstance(o, (float, np.floating)): return Lin(Fraction(float(o)))
    return NotImplemented

class SBool:
    __array_ufunc__ = None
    def __init__(self, e): self.e = e   # z3 BoolRef
    def __bool__(self):
        c = CTX
        i = len(c.trace)
        if i < len(c.prefix):
            d = c.prefix[i]
        else:
            s = c.solver
            s.push(); s.add(self.e); rt = s.check(); s.pop()
            s.push(); s.add(z3.Not(self.e)); rf = s.check(); s.pop()
            if str(rt) == "sat" and str(rf) == "sat":
                d = True; c.pending.append(c.trace + [False])
            elif str(rt) == "sat": d = True
            elif str(rf) == "sat": d = False
            else: raise Infeasible()
        c.trace.append(d)
        e = self.e if d else z3.Not(self.e)
        c.pc.append(e); c.solver.add(e)
        return d
    def __invert__(self): return SBool(z3.Not(self.e))
    def __and__(self, o): return SBool(z3.And(self.e, bz(o)))
    __rand__ = __and__
    def __or__(self, o): return SBool(z3.Or(self.e, bz(o)))
    __ror__ = __or__
class Infeasible(BaseException): pass
def bz(o): return o.e if isinstance(o, SBool) else z3.BoolVal(bool(o))

class SC:
    __slots__ = ("re", "im")
    __array_ufunc__ = None
    def __init__(self, re, im=0): self.re = lift(re); self.im = lift(im)
    @staticmethod
    def of(o):
        if isinstance(o, SC): return o
        if isinstance(o, Lin): return SC(o)
        if isinstance(o, (complex, np.complexfloating)): return SC(float(o.real), float(o.imag))
        if isinstance(o, (int, float, np.integer, np.floating, bool, np.bool_)): return SC(o)
        return NotImplemented
    def isreal(self): return self.im.is_const() and self.im.c == 0
    def __add__(self, o):
        o = SC.of(o)
        return o if o is NotImplemented else SC(self.re + o.re, self.im + o.im)
    __radd__ = __add__
    def __neg__(self): return SC(-self.re, -self.im)
    def __sub__(self, o):
        o = SC.of(o)
        return o if o is NotImplemented else SC(self.re - o.re, self.im - o.im)
    def __rsub__(self, o): return (-self) + o
    def __mul__(self, o):
        if sp.issparse(o): o = o.toarray()
        if isinstance(o, np.ndarray):
            out = np.empty(o.shape, dtype=object); fo = out.reshape(-1); fi = o.reshape(-1)
            for i in range(fi.size): fo[i] = self * fi[i]
            return out.view(SymNd)
        o = SC.of(o)
        if o is NotImplemented: return o
        return SC(self.re * o.re - self.im * o.im, self.re * o.im + self.im * o.re)
    __rmul__ = __mul__
    def __truediv__(self, o):
        o = SC.of(o)
        if o.isreal(): return SC(self.re / o.re, self.im / o.re)
        raise NotImplementedError
    def conjugate(self): return SC(self.re, -self.im)
    conj = conjugate
    @property
    def real(self): return SC(self.re)
    @property
    def imag(self): return SC(self.im)
    def astype(self, dt): return self
    def __deepcopy__(self, memo): return self
    def __copy__(self): return self
    def __repr__(self): return f"SC({self.re},{self.im})"
    def __float__(self): raise TypeError("symbolic scalar realised (float)")
    def __complex__(self): raise TypeError("symbolic scalar realised (complex)")
    def _cmp(self, o, op):
        d = self - SC.of(o)
        assert d.isreal(), "complex compare"
        d = d.re
        if d.is_const(): return {"lt": d.c < 0, "le": d.c <= 0, "gt": d.c > 0, "ge": d.c >= 0, "eq": d.c == 0, "ne": d.c != 0}[op]
        e = d.z3(); zero = z3.RealVal(0)
        return SBool({"lt": e < zero, "le": e <= zero, "gt": e > zero, "ge": e >= zero, "eq": e == zero, "ne": e != zero}[op])
    def __lt__(self, o): return self._cmp(o, "lt")
    def __le__(self, o): return self._cmp(o, "le")
    def __gt__(self, o): return self._cmp(o, "gt")
    def __ge__(self, o): return self._cmp(o, "ge")
    def __eq__(self, o): return self._cmp(o, "eq")
    def __ne__(self, o): return self._cmp(o, "ne")
    __hash__ = None
    def __abs__(self):
        assert self.isreal()
        if self.re.is_const(): return SC(abs(self.re.c))
        return ite(self < 0, -self, self)

def ite(c, a, b):
    if isinstance(c, (bool, np.bool_)): return a if c else b
    a = SC.of(a); b = SC.of(b)
    def one(x, y):
        if x.is_const() and y.is_const() and x.c == y.c: return x
        n = CTX.fresh("ite"); v = z3.Real(n)
        d = z3.And(z3.Implies(c.e, v == x.z3()), z3.Implies(z3.Not(c.e), v == y.z3()))
        CTX.defs.append(d); CTX.solver.add(d)
        return Lin.var(n)
    return SC(one(a.re, b.re), one(a.im, b.im))

# ---------------- arrays ----------------
class SymNd(np.ndarray):
    def __new__(cls, data):
        a = np.empty(np.shape(data), dtype=object); a[...] = data
        return a.view(cls)
    @property
    def dtype(self):
        mod = sys._getframe(1).f_globals.get("__name__", "")
        if mod.startswith("quara."):
            allreal = all(SC.of(x).isreal() for x in np.ndarray.reshape(self, -1))
            return np.dtype(np.float64 if allreal else np.complex128)
        return np.ndarray.dtype.__get__(self)
    @property
    def real(self): return _map(lambda x: SC.of(x).real, self)
    @property
    def imag(self): return _map(lambda x: SC.of(x).imag, self)
    def astype(self, dt, **kw):
        if np.dtype(dt) == object: return np.ndarray.astype(self, dt, **kw)
        return self.copy()
    def _cmparr(self, o, op):
        o = np.broadcast_to(np.asarray(o, dtype=object), self.shape)
        out = np.empty(self.shape, dtype=object)
        for idx in np.ndindex(self.shape): out[idx] = getattr(SC.of(self[idx]), op)(o[idx])
        return out.view(BoolNd)
    def __lt__(self, o): return self._cmparr(o, "__lt__")
    def __le__(self, o): return self._cmparr(o, "__le__")
    def __gt__(self, o): return self._cmparr(o, "__gt__")
    def __ge__(self, o): return self._cmparr(o, "__ge__")
    def __ne__(self, o): return self._cmparr(o, "__ne__")
    def __eq__(self, o): return self._cmparr(o, "__eq__")
    def __setitem__(self, k, v):
        if isinstance(k, BoolNd):
            for idx in np.ndindex(self.shape):
                np.ndarray.__setitem__(self, idx, ite(k[idx], v, np.ndarray.__getitem__(self, idx)))
            return
        np.ndarray.__setitem__(self, k, v)
    def __array_function__(self, func, types_, args, kwargs):
        f = OVERRIDES.get(func)
        if f is not None: return f(*args, **kwargs)
        r = super().__array_function__(func, types_, args, kwargs)
        return _wrap(r)
class BoolNd(np.ndarray):
    def __array_function__(self, func, types_, args, kwargs):
        f = OVERRIDES.get(func)
        if f is not None: return f(*args, **kwargs)
        return _wrap(super().__array_function__(func, types_, args, kwargs))
def _wrap(r):
    if isinstance(r, np.ndarray) and np.ndarray.dtype.__get__(r) == object and not isinstance(r, (SymNd, BoolNd)): return r.view(SymNd)
    if isinstance(r, (list, tuple)): return type(r)(_wrap(x) for x in r)
    return r
def _map(f, a):
    out = np.empty(a.shape, dtype=object)
    for idx in np.ndindex(a.shape): out[idx] = f(np.ndarray.__getitem__(a, idx))
    return out.view(SymNd)

def _where(c, a=None, b=None):
    c = np.asarray(c, dtype=object)
    a = np.broadcast_to(np.asarray(a, dtype=object), c.shape); b = np.broadcast_to(np.asarray(b, dtype=object), c.shape)
    out = np.empty(c.shape, dtype=object)
    for idx in np.ndindex(c.shape): out[idx] = ite(c[idx], a[idx], b[idx])
    return out.view(SymNd)
def _any(a, *k, **kw):
    xs = [x for x in np.asarray(a, dtype=object).reshape(-1)]
    if any(x is True or (isinstance(x, np.bool_) and x) for x in xs): return True
    sy = [x for x in xs if isinstance(x, SBool)]
    return SBool(z3.Or([x.e for x in sy])) if sy else False
def _abs(a): return _map(lambda x: abs(SC.of(x)), a)
OVERRIDES = {np.where: _where, np.any: _any, np.abs: _abs, np.absolute: _abs}

# sparse boundary
_orig_mm = _base._spbase._matmul_dispatch
def _mm(self, other):
    if isinstance(other, SymNd): return (self.toarray().astype(object) @ np.asarray(other)).view(SymNd)
    return _orig_mm(self, other)
_base._spbase._matmul_dispatch = _mm

# numpy proxy for quara modules
class NpProxy(types.ModuleType):
    def __init__(self):
        super().__init__("symnp_proxy")
    def __getattr__(self, n): return getattr(np, n)
    def zeros(self, shape, dtype=float, **kw): return SymNd(np.zeros(shape, dtype=dtype).astype(object))
    def eye(self, *a, **kw): return SymNd(np.eye(*a, **{k: v for k, v in kw.items() if k != "dtype"}).astype(object))
    def array(self, obj, dtype=None, **kw):
        r = np.array(obj, dtype=object) if dtype is None or True else None
        return SymNd(r) if _has_sym(r) else np.array(obj, dtype=dtype, **kw)
def _has_sym(a): return any(isinstance(x, SC) for x in np.asarray(a, dtype=object).reshape(-1))
PROXY = NpProxy()
def install(modules):
    for m in modules: m.np = PROXY

def explore(fn, setup_assumptions):
    """run fn under all feasible paths; yields (trace, result or exception)"""
    CTX.pending = [[]]; out = []
    while CTX.pending:
        CTX.prefix = CTX.pending.pop(); CTX.trace = []; CTX.pc = []; CTX.defs = []
        CTX.solver = z3.Solver(); setup_assumptions(CTX.solver)
        try: r = ("ok", fn())
        except Infeasible: continue
        except Exception as e: r = ("exc", e)
        out.append((list(CTX.trace), list(CTX.pc), list(CTX.defs), r))
    return out

def _pow(self, k):
    assert k == 2 and self.isreal()
    if self.re.is_const(): return SC(self.re.c ** 2)
    a = CTX.fresh("sq"); e = self.re.z3(); d = z3.Real(a) == e * e
    CTX.defs.append(d); CTX.solver.add(z3.Real(a) >= 0)   # relaxation only for branch feasibility
    return SC(Lin.var(a))
SC.__pow__ = _pow
