import sys; sys.path.insert(0, "/repo"); sys.path.insert(0, __import__("os").path.dirname(__import__("os").path.abspath(__file__)))
import numpy as np, scipy.linalg, time, z3, io, contextlib
scipy.linalg.kron = np.kron
from symnp1 import *
import symnp1
from quara.objects.composite_system_typical import generate_composite_system
import quara.objects.state as S, quara.utils.matrix_util as MU, quara.objects.qoperation as QO
install([S, MU, QO])
c_sys = generate_composite_system("qubit", 1)
n = 4
R = z3.RealSort()
UF = {name: [z3.Function(f"{name}_{i}", *([R]*n), R) for i in range(n)] for name in ("Peq", "Pineq")}
def apply_uf(name, vec):
    args = [SC.of(v).re.z3() for v in vec]
    out = []
    for i in range(n):
        a = CTX.fresh(f"{name}{i}"); d = z3.Real(a) == UF[name][i](*args)
        CTX.defs.append(d); CTX.solver.add(d); out.append(SC(Lin.var(a)))
    return out
def stub(name):
    def f(self):
        return S.State(self.composite_system, SymNd(apply_uf(name, self.vec)), is_physicality_required=False,
                       is_estimation_object=self.is_estimation_object, on_para_eq_constraint=self.on_para_eq_constraint,
                       on_algo_eq_constraint=self.on_algo_eq_constraint, on_algo_ineq_constraint=self.on_algo_ineq_constraint,
                       mode_proj_order=self.mode_proj_order, eps_proj_physical=self.eps_proj_physical)
    return f
S.State.calc_proj_eq_constraint = stub("Peq"); S.State.calc_proj_ineq_constraint = stub("Pineq")
K = 3
def run(order):
    x0 = SymNd([SC(Lin.var(f"x{i}")) for i in range(n)])
    st = S.State(c_sys, x0, is_physicality_required=False, mode_proj_order=order, eps_proj_physical=1e-6)
    with contextlib.redirect_stdout(io.StringIO()):
        res, hist = st.calc_proj_physical(max_iteration=K, is_iteration_history=True)
    return res.vec, hist
def assume(s): pass
for order in ("eq_ineq", "ineq_eq"):
    t = time.time()
    res = explore(lambda: run(order), assume)
    print(order, "paths:", len(res), "time", round(time.time()-t, 2))
    for tr, pc, defs, r in res:
        if r[0] != "ok": print("  EXC", r[1]); continue
        vec, hist = r[1]
        iters = len(hist["x"]) - 1
        # reference Dykstra over same UFs, in z3
        P1, P2 = (UF["Peq"], UF["Pineq"]) if order == "eq_ineq" else (UF["Pineq"], UF["Peq"])
        x = [z3.Real(f"x{i}") for i in range(n)]; p = [z3.RealVal(0)]*n; q = [z3.RealVal(0)]*n
        for k in range(iters):
            xp = [a+b for a, b in zip(x, p)]
            y = [P1[i](*xp) for i in range(n)]
            p = [a-b for a, b in zip(xp, y)]
            yq = [a+b for a, b in zip(y, q)]
            x = [P2[i](*yq) for i in range(n)]
            q = [a-b for a, b in zip(yq, x)]
        s = z3.Solver(); s.add(pc); s.add(defs)
        s.add(z3.Or([SC.of(vec[i]).re.z3() != x[i] for i in range(n)]))
        print("  path", tr, "iters", iters, "result==ref Dykstra:", s.check())
