import sys; sys.path.insert(0, "/repo")
import numpy as np, scipy.linalg, warnings, traceback
warnings.filterwarnings("ignore")
scipy.linalg.kron = np.kron
from quara.objects.composite_system_typical import generate_composite_system
from quara.objects.state import State
from quara.objects.povm import Povm
from quara.objects.gate import Gate, to_var_from_choi, to_choi_from_var
from quara.objects.mprocess import MProcess
from quara.objects import operators as op
from quara.objects.elemental_system import ElementalSystem
from quara.objects.composite_system import CompositeSystem
from quara.objects import matrix_basis as mb
c1 = generate_composite_system("qubit", 1)
def t(name, f):
    try: print(f"{name}: {f()}")
    except BaseException as e: print(f"{name}: EXC {type(e).__name__}: {str(e)[:120]}")
# C01
v = np.array([(1+5e-6)/np.sqrt(2), 0, 0, 0.5])
t("C01 is_trace_one(trace=1+5e-6, atol=1e-13)", lambda: State(c1, v, is_physicality_required=False).is_trace_one(1e-13))
# C02
z = Povm(c1, [np.array([1,0,0,1])/np.sqrt(2), np.array([1,0,0,-1])/np.sqrt(2)])
t("C02 Povm.matrix_with_sparsity", lambda: z.matrix_with_sparsity(0))
rng = np.random.default_rng(0); var = rng.normal(size=12)
t("C02 to_var_from_choi(to_choi_from_var(var)) == var", lambda: np.allclose(to_var_from_choi(c1, to_choi_from_var(c1, var)), var))
# C04 mutation
hss = [rng.normal(size=(4,4)) for _ in range(2)]
arg = np.array(hss).flatten(); before = arg.copy()
MProcess.calc_proj_eq_constraint_with_var(c1, arg, on_para_eq_constraint=False)
print("C04 MProcess.calc_proj_eq_constraint_with_var mutates arg:", not np.array_equal(arg, before))
# C06 mprocess o mprocess order
from quara.objects.mprocess_typical import generate_mprocess_from_name
from quara.objects.state_typical import generate_state_from_name
mz = generate_mprocess_from_name(c1, "z-type1"); mx = generate_mprocess_from_name(c1, "x-type1")
s = generate_state_from_name(c1, "z0")
a = op.compose_qoperations(mx, mz, s)        # mz first, then mx
b = op.compose_qoperations(op.compose_qoperations(mx, mz), s)
print("C06 chain vs bracketed:", a.prob_dist.ps, a.prob_dist.shape, "|", b.prob_dist.ps, b.prob_dist.shape)
# C07 4 subsystems out of order
es = [ElementalSystem(i, mb.get_normalized_pauli_basis()) for i in range(4)]
cs = [CompositeSystem([e]) for e in es]
sts = [generate_state_from_name(c, n) for c, n in zip(cs, ["z0", "x0", "y0", "z1"])]
t("C07 tensor 4 in order", lambda: op.tensor_product(sts[0], sts[1], sts[2], sts[3]).vec.shape)
t("C07 tensor 4 out of order (3,1,0,2)", lambda: op.tensor_product(sts[3], sts[1], sts[0], sts[2]).vec.shape)
t("C07 tensor 3 out of order (2,0,1)", lambda: op.tensor_product(sts[2], sts[0], sts[1]).vec.shape)
# C14
from quara.qcircuit.data_generator import _random_number_to_data
t("C14 fallthrough p=[1-1e-13,0], r=1-1e-14", lambda: _random_number_to_data(np.array([1-1e-13, 0.0]), 1-1e-14))
# C18
from quara.objects.effective_lindbladian import generate_effective_lindbladian_from_hk, generate_effective_lindbladian_from_k
K = np.array([[1,0.2,0],[0.2,0.5,0.1j],[0,-0.1j,0.3]], dtype=complex)
H = np.array([[0.3, 0.1-0.2j],[0.1+0.2j, -0.4]])
L = generate_effective_lindbladian_from_hk(c1, H, K, is_physicality_required=False)
from quara.objects.effective_lindbladian import _calc_j_mat_from_k_mat
print("C18 j_mat extracted vs built:\n", np.round(L.calc_j_mat(), 4), "\n", np.round(_calc_j_mat_from_k_mat(K, c1), 4))
print("C18 h_mat ok:", np.allclose(L.calc_h_mat(), H - np.trace(H)/2*np.eye(2)), " k_mat ok:", np.allclose(L.calc_k_mat(), K))
