import sys
sys.path.insert(0, "/repo")
import numpy as np, scipy.linalg
scipy.linalg.kron = np.kron
from typing import List, Tuple
from quara.qcircuit.experiment import Experiment, QuaraScheduleItemError, QuaraScheduleOrderError

KINDS = ["state", "povm", "gate", "mprocess", "bogus"]

def spec_accepts(sched, sizes):
    if len(sched) < 2: return False
    for k, i in sched:
        if k not in sizes: return False
        if not (0 <= i < sizes[k]): return False
    if sched[0][0] != "state": return False
    if sched[-1][0] not in ("povm", "mprocess"): return False
    if sum(1 for k, _ in sched if k == "state") != 1: return False
    if sum(1 for k, _ in sched if k == "povm") > 1: return False
    return True

def check(kinds: List[int], idxs: List[int], ns: int, npv: int, ng: int, nm: int) -> bool:
    """
    pre: len(kinds) == len(idxs) and 0 <= len(kinds) <= 3
    pre: all(0 <= k < 5 for k in kinds)
    pre: 0 <= ns <= 2 and 0 <= npv <= 2 and 0 <= ng <= 2 and 0 <= nm <= 2
    post: _ == True
    """
    sched = [(KINDS[k], i) for k, i in zip(kinds, idxs)]
    sizes = dict(state=ns, povm=npv, gate=ng, mprocess=nm)
    try:
        Experiment(schedules=[sched], states=[None]*ns, povms=[None]*npv, gates=[None]*ng, mprocesses=[None]*nm)
        acc = True
    except (QuaraScheduleItemError, QuaraScheduleOrderError):
        acc = False
    return acc == spec_accepts(sched, sizes)
