import sys
sys.path.insert(0, "/repo")
import numpy as np, scipy.linalg
scipy.linalg.kron = np.kron
from quara.objects.composite_system_typical import generate_composite_system
from quara.objects import gate as G, mprocess as MP, povm as PV
C1 = generate_composite_system("qubit", 1)
HSS3 = [np.zeros((4,4)) for _ in range(3)]

def gate_idx_roundtrip(i: int, flag: bool) -> int:
    """
    pre: 0 <= i < (12 if flag else 16)
    post: _ == i
    """
    rc = G.convert_var_index_to_gate_index(C1, i, flag)
    return G.convert_gate_index_to_var_index(C1, rc, flag)

def mp_idx_roundtrip(i: int, flag: bool) -> int:
    """
    pre: 0 <= i < (44 if flag else 48)
    post: _ == i
    """
    t = MP.convert_var_index_to_mprocess_index(C1, HSS3, i, flag)
    return MP.convert_mprocess_index_to_var_index(C1, t, HSS3, flag)

def mp_idx_range(i: int, flag: bool) -> bool:
    """
    pre: 0 <= i < (44 if flag else 48)
    post: _ == True
    """
    h, r, c = MP.convert_var_index_to_mprocess_index(C1, HSS3, i, flag)
    ok = 0 <= h < 3 and 0 <= r < 4 and 0 <= c < 4
    if flag and h == 2:
        ok = ok and r >= 1
    return ok

def vac(i: int, flag: bool) -> bool:
    """
    pre: 0 <= i < (44 if flag else 48)
    post: _ == False
    """
    h, r, c = MP.convert_var_index_to_mprocess_index(C1, HSS3, i, flag)
    return True
