import sys; sys.path.insert(0, "/repo"); sys.path.insert(0, __import__("os").path.dirname(__import__("os").path.abspath(__file__)))
import numpy as np, scipy.linalg, time, z3, itertools, builtins
scipy.linalg.kron = np.kron
import symnp1
from symnp1 import CTX, SBool, Infeasible, explore
import quara.qcircuit.experiment as E

class SInt:
    def __init__(self, e): self.e = e
    def _c(self, o, f):
        oe = o.e if isinstance(o, SInt) else z3.IntVal(int(o))
        return SBool(f(self.e, oe))
    def __lt__(self, o): return self._c(o, lambda a, b: a < b)
    def __le__(self, o): return self._c(o, lambda a, b: a <= b)
    def __gt__(self, o): return self._c(o, lambda a, b: a > b)
    def __ge__(self, o): return self._c(o, lambda a, b: a >= b)
    def __eq__(self, o): return self._c(o, lambda a, b: a == b) if isinstance(o, (int, SInt)) else False
    def __ne__(self, o): return self._c(o, lambda a, b: a != b) if isinstance(o, (int, SInt)) else True
    __hash__ = None
    def __str__(self): return "<sym>"
    __repr__ = __str__
    def __format__(self, spec): return "<sym>"
def symtype(x):
    return int if isinstance(x, SInt) else builtins.type(x)
E.type = symtype

KINDS = ["state", "povm", "gate", "mprocess", "bogus"]
def spec(kinds, idx, sizes):
    """returns z3 Bool: accepted"""
    if len(kinds) < 2: return z3.BoolVal(False)
    conj = []
    for k, i in zip(kinds, idx):
        if k not in sizes: return z3.BoolVal(False)
        conj.append(z3.And(i >= 0, i < sizes[k]))
    if kinds[0] != "state" or kinds[-1] not in ("povm", "mprocess"): return z3.BoolVal(False)
    if kinds.count("state") != 1 or kinds.count("povm") > 1: return z3.BoolVal(False)
    return z3.And(conj)

tot_paths = 0; tot_q = 0; bad = 0; t0 = time.time()
for L in range(0, 4):
    for kinds in itertools.product(KINDS, repeat=L):
        for sizes_t in itertools.product(range(0, 3), repeat=4):
            if L >= 2 and sizes_t != (1, 2, 0, 1) and sizes_t != (2, 1, 1, 0): continue   # probe: only 2 size configs for L>=2
            sizes = dict(zip(["state", "povm", "gate", "mprocess"], sizes_t))
            zi = [z3.Int(f"i{j}") for j in range(L)]
            def run():
                sched = [(k, SInt(z)) for k, z in zip(kinds, zi)]
                try:
                    E.Experiment(schedules=[sched], states=[None]*sizes["state"], povms=[None]*sizes["povm"],
                                 gates=[None]*sizes["gate"], mprocesses=[None]*sizes["mprocess"])
                    return "accept"
                except E.QuaraScheduleItemError: return "item"
                except E.QuaraScheduleOrderError: return "order"
            res = explore(run, lambda s: None)
            sp = spec(list(kinds), zi, sizes)
            for tr, pc, defs, r in res:
                tot_paths += 1
                s = z3.Solver(); s.add(pc)
                if r[0] == "exc": print("EXC", kinds, sizes_t, r[1]); bad += 1; continue
                s.add(sp if r[1] != "accept" else z3.Not(sp)); tot_q += 1
                if str(s.check()) != "unsat":
                    bad += 1; print("MISMATCH", kinds, sizes_t, r[1], s.model())
print("paths", tot_paths, "queries", tot_q, "bad", bad, "time", round(time.time()-t0, 1))
