import sys
sys.path.insert(0, "/repo")
from typing import List, Tuple
from quara.utils.index_util import index_multi_dimensional_from_index_serial as to_md, index_serial_from_index_multi_dimensional as to_ser

def roundtrip(n0: int, n1: int, n2: int, s: int) -> int:
    """
    pre: 1 <= n0 <= 5 and 1 <= n1 <= 5 and 1 <= n2 <= 5
    pre: 0 <= s < n0 * n1 * n2
    post: _ == s
    """
    md = to_md([n0, n1, n2], s)
    return to_ser([n0, n1, n2], md)

def rowmajor(n0: int, n1: int, n2: int, i0: int, i1: int, i2: int) -> int:
    """
    pre: 1 <= n0 <= 5 and 1 <= n1 <= 5 and 1 <= n2 <= 5
    pre: 0 <= i0 < n0 and 0 <= i1 < n1 and 0 <= i2 < n2
    post: _ == (i0 * n1 + i1) * n2 + i2
    """
    return to_ser([n0, n1, n2], (i0, i1, i2))
