import sys; sys.path.insert(0, "/repo"); sys.path.insert(0, __import__("os").path.dirname(__import__("os").path.abspath(__file__)))
import numpy as np, scipy.linalg, time, z3
scipy.linalg.kron = np.kron
from symnp1 import *
import symnp1
from quara.objects.composite_system_typical import generate_composite_system
import quara.objects.state as S, quara.utils.matrix_util as MU, quara.objects.gate as G
install([S, MU, G])
c_sys = generate_composite_system("qubit", 1)
# spectral parametrisation: A = V diag(w) V^dagger with exact unitary V
V = np.array([[3/5, 4j/5],[4j/5, 3/5]])
w = [SC(Lin.var("w0")), SC(Lin.var("w1"))]
def build_A():
    D = SymNd([[w[0], 0],[0, w[1]]])
    return (V.astype(object) @ D @ V.conj().T.astype(object)).view(SymNd)
# eigh stub
def eigh_stub(M):
    return SymNd(w), V.copy()
symnp1.OVERRIDES[np.linalg.eigh] = eigh_stub
B = [b.toarray() for b in c_sys.basis()]
def ref_vec(A):   # reference: vec_i = tr(B_i^dagger A)
    return [sum(np.conj(Bi[r, c]) * A[r, c] for r in range(2) for c in range(2)) for Bi in B]
def run():
    A = build_A()
    x = SymNd(ref_vec(A))
    st = S.State(c_sys, SymNd([SC.of(e).real for e in x]), is_physicality_required=False)
    return st.calc_proj_ineq_constraint().vec
def assume(s):
    s.add(z3.Real("w0") <= z3.Real("w1"))
    for n in ("w0", "w1"): s.add(z3.Real(n) >= -1000, z3.Real(n) <= 1000)
t = time.time()
res = explore(run, assume)
print("paths:", len(res), "time", round(time.time()-t, 2))
for tr, pc, defs, r in res:
    print(tr, r[0], (r[1] if r[0] == "exc" else [str(e) for e in r[1]]))
    if r[0] == "ok":
        # obligation: equals reference clip formula
        s = z3.Solver(); assume(s); s.add(pc); s.add(defs)
        wp = [z3.If(z3.Real(n) < 0, z3.RealVal(0), z3.Real(n)) for n in ("w0", "w1")]
        # reference vec of V diag(w+) V^dagger computed numerically as linear function of wp
        Pmat = lambda k: np.outer(V[:, k], V[:, k].conj())
        bad = []
        for i, Bi in enumerate(B):
            coefs = [np.trace(Bi.conj().T @ Pmat(k)).real for k in range(2)]
            ref = sum(z3.RealVal(str(Fraction(float(cf)))) * wp[k] for k, cf in enumerate(coefs))
            got = SC.of(r[1][i]).re.z3()
            bad.append(z3.Or(got - ref > 1e-9, ref - got > 1e-9))
        s.add(z3.Or(bad)); print("  obligation:", s.check())
