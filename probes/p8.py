import sys, os; sys.path.insert(0, "/repo"); sys.path.insert(0, os.path.dirname(os.path.abspath(__file__)))
import numpy as np, scipy.linalg, time, z3
scipy.linalg.kron = np.kron
from symnp1 import *
import symnp1
from quara.objects.composite_system_typical import generate_composite_system
import quara.objects.state as S, quara.utils.matrix_util as MU, quara.objects.gate as G
install([S, MU, G])
CTX.solver = z3.Solver()
for mode, n in (("qubit", 2), ("qutrit", 1)):
    c_sys = generate_composite_system(mode, n)
    d2 = c_sys.dim ** 2
    hs = SymNd([[SC(Lin.var(f"h{i}_{j}")) for j in range(d2)] for i in range(d2)])
    t = time.time(); g = G.Gate(c_sys, hs, is_physicality_required=False); 
    c1 = g.to_choi_matrix_with_sparsity(); t1 = time.time() - t
    t = time.time(); c2 = g.to_choi_matrix(); t2 = time.time() - t
    t = time.time(); c3 = g.to_choi_matrix_with_dict(); t3 = time.time() - t
    t = time.time(); h2 = G.to_hs_from_choi_with_sparsity(c_sys, c1); t4 = time.time() - t
    # obligation: all three agree & inverse is identity, tol 1e-8, box 1e3
    s = z3.Solver(); t = time.time()
    for i in range(d2):
        for j in range(d2): s.add(z3.Real(f"h{i}_{j}") >= -1000, z3.Real(f"h{i}_{j}") <= 1000)
    s.add(CTX.defs)
    bad = []
    def diff(a, b):
        a = SC.of(a); b = SC.of(b)
        for x, y in ((a.re, b.re), (a.im, b.im)):
            dlt = x - y
            if dlt.is_const():
                if abs(dlt.c) > 1e-8: bad.append(z3.BoolVal(True))
            else:
                e = dlt.z3(); bad.append(z3.Or(e > 1e-8, e < -1e-8))
    for i in range(d2):
        for j in range(d2):
            diff(c1[i, j], c2[i, j]); diff(c1[i, j], c3[i, j]); diff(h2[i, j], hs[i, j])
    s.add(z3.Or(bad)); r = s.check(); t5 = time.time() - t
    print(mode, n, f"sparsity {t1:.1f}s  slow {t2:.1f}s  dict {t3:.1f}s  inverse {t4:.1f}s  | {len(bad)} disjuncts -> {r} in {t5:.1f}s")
